"""Generic TFLite flatbuffer writer from a JSON-able network spec, on the vendored accessor classes (vendor/vtfl) -
independent of Vela's own writer.  Also: generic option-table introspection (field names, slot kinds, defaults)
used to fill every option field of every option table (C11) and to compare option tables field by field.

spec = dict(tensors=[T...], ops=[O...], inputs=[idx], outputs=[idx], description=str)
T = dict(name, shape, dtype, scale=None|float|[..], zp=None|int|[..], qdim=0, data=None|{"values":[..]}|{"seed":n,"lo":a,"hi":b}, shape_signature=None)
O = dict(code="CONV_2D", inputs=[..], outputs=[..], opts=None|{"table":"Conv2DOptions","fields":{..}}, version=1, custom_code=None, custom_options=None(hex))
"""
import importlib
import inspect
import re

import flatbuffers
import numpy as np

from vtfl import Buffer, Model, Operator, OperatorCode, QuantizationParameters, SubGraph, Tensor
from vtfl.BuiltinOperator import BuiltinOperator as BO
from vtfl.BuiltinOptions import BuiltinOptions as BOpt
from vtfl.TensorType import TensorType as TT

DTYPES = {"float32": (np.float32, TT.FLOAT32), "float16": (np.float16, TT.FLOAT16), "int32": (np.int32, TT.INT32), "uint8": (np.uint8, TT.UINT8),
          "int64": (np.int64, TT.INT64), "bool": (np.bool_, TT.BOOL), "int16": (np.int16, TT.INT16), "int8": (np.int8, TT.INT8)}
TT_NAMES = {v: k for k, v in vars(TT).items() if not k.startswith("_")}
BO_NAMES = {v: k for k, v in vars(BO).items() if not k.startswith("_")}
BOPT_NAMES = {v: k for k, v in vars(BOpt).items() if not k.startswith("_")}

_tables = {}


def option_table(name):
    """-> dict(module, fields=[(Field, kind, slot, default, vector_elem_size|None)]) by introspection of the generated code"""
    if name in _tables:
        return _tables[name]
    mod = importlib.import_module("vtfl." + name)
    src = inspect.getsource(mod)
    fields = []
    for m in re.finditer(r"def %sAdd(\w+)\(builder, \w+\): builder\.Prepend(\w+)Slot\((\d+), (?:flatbuffers\.number_types\.UOffsetTFlags\.py_type\(\w+\)|\w+), ([^)]+)\)" % name, src):
        fld, kind, slot, default = m.group(1), m.group(2), int(m.group(3)), m.group(4)
        vec = re.search(r"def %sStart%sVector\(builder, numElems\): return builder\.StartVector\((\d+), numElems, (\d+)\)" % (name, fld), src)
        fields.append((fld, kind, slot, default, (int(vec.group(1)), int(vec.group(2))) if vec else None))
    _tables[name] = dict(module=mod, fields=fields)
    return _tables[name]


def all_option_tables():
    return sorted(k for k in vars(BOpt) if not k.startswith("_") and k != "NONE")


def tensor_data(t):
    """deterministic constant data of a tensor spec (or None)"""
    d = t.get("data")
    if d is None:
        return None
    npdt = DTYPES[t["dtype"]][0]
    shape = tuple(t["shape"])
    if "values" in d:
        return np.asarray(d["values"]).astype(npdt).reshape(shape)
    rng = np.random.default_rng(d["seed"])
    if npdt in (np.float32, np.float16):
        return rng.uniform(d.get("lo", -1.0), d.get("hi", 1.0), size=shape).astype(npdt)
    if npdt == np.bool_:
        return rng.integers(0, 2, size=shape).astype(npdt)
    kind = d.get("dist", "uniform")
    lo, hi = d["lo"], d["hi"]
    if kind == "sparse":
        v = np.where(rng.random(shape) < 0.6, d.get("zero", 0), rng.integers(lo, hi + 1, size=shape))
    elif kind == "small":
        v = rng.integers(max(lo, -4), min(hi, 4) + 1, size=shape)
    else:
        v = rng.integers(lo, hi + 1, size=shape)
    return v.astype(npdt)


def _vec(b, elem_size, align, values, prepend):
    b.StartVector(elem_size, len(values), align)
    for v in reversed(values):
        prepend(v)
    return b.EndVector()


def _build_options(b, opts):
    tab = option_table(opts["table"])
    mod = tab["module"]
    name = opts["table"]
    pre = {}
    for fld, kind, slot, default, vec in tab["fields"]:
        if fld not in opts["fields"]:
            continue
        val = opts["fields"][fld]
        if kind == "UOffsetTRelative":
            if vec is not None:
                esz = vec[0]
                prep = {1: b.PrependInt8, 4: b.PrependInt32, 8: b.PrependInt64}[esz] if not (isinstance(val, list) and val and isinstance(val[0], float)) else b.PrependFloat32
                pre[fld] = _vec(b, esz, vec[1], list(val), prep)
            elif isinstance(val, str):
                pre[fld] = b.CreateString(val)
            else:
                continue
    getattr(mod, name + "Start")(b)
    for fld, kind, slot, default, vec in tab["fields"]:
        if fld not in opts["fields"]:
            continue
        if kind == "UOffsetTRelative":
            if fld in pre:
                getattr(mod, name + "Add" + fld)(b, pre[fld])
        else:
            getattr(mod, name + "Add" + fld)(b, opts["fields"][fld])
    return getattr(mod, name + "End")(b)


def build(spec):
    """spec = main subgraph; spec.get("subgraphs") = further subgraph specs (same layout, plus "subgraph_name") referenced by WHILE / IF / CALL_ONCE options"""
    b = flatbuffers.Builder(4096)
    sgs = [spec] + list(spec.get("subgraphs") or [])
    # buffers: 0 is the empty sentinel; constants get their own buffer (shared when "buffer_of" names another tensor of the same subgraph)
    buf_offs = []
    Buffer.BufferStart(b)
    buf_offs.append(Buffer.BufferEnd(b))
    tbufs = []
    for sp in sgs:
        tbuf = {}
        for i, t in enumerate(sp["tensors"]):
            if t.get("buffer_of") is not None:
                continue
            data = tensor_data(t)
            if data is not None:
                raw = np.ascontiguousarray(data).tobytes()
                b.StartVector(1, len(raw), 16)
                b.head = b.head - len(raw)
                b.Bytes[b.head:b.head + len(raw)] = raw
                dv = b.EndVector()
                Buffer.BufferStart(b)
                Buffer.BufferAddData(b, dv)
                buf_offs.append(Buffer.BufferEnd(b))
                tbuf[i] = len(buf_offs) - 1
            elif t.get("own_empty_buffer"):
                Buffer.BufferStart(b)
                buf_offs.append(Buffer.BufferEnd(b))
                tbuf[i] = len(buf_offs) - 1
        for i, t in enumerate(sp["tensors"]):
            if t.get("buffer_of") is not None:
                tbuf[i] = tbuf.get(t["buffer_of"], 0)
        tbufs.append(tbuf)
    # operator codes (shared by all subgraphs)
    codes = []
    for sp in sgs:
        for o in sp["ops"]:
            k = (o["code"], o.get("version", 1), o.get("custom_code"))
            if k not in codes:
                codes.append(k)
    code_offs = []
    for (c, v, cust) in codes:
        cs = b.CreateString(cust) if cust else None
        cval = getattr(BO, c)
        OperatorCode.OperatorCodeStart(b)
        OperatorCode.OperatorCodeAddDeprecatedBuiltinCode(b, min(cval, 127))
        OperatorCode.OperatorCodeAddBuiltinCode(b, cval)
        OperatorCode.OperatorCodeAddVersion(b, v)
        if cs:
            OperatorCode.OperatorCodeAddCustomCode(b, cs)
        code_offs.append(OperatorCode.OperatorCodeEnd(b))

    def vec_off(offs):
        b.StartVector(4, len(offs), 4)
        for x in reversed(offs):
            b.PrependUOffsetTRelative(x)
        return b.EndVector()

    sg_offs = []
    for si, sp in enumerate(sgs):
        tensors, ops, tbuf = sp["tensors"], sp["ops"], tbufs[si]
        t_offs = []
        for i, t in enumerate(tensors):
            name = b.CreateString(t["name"])
            shp = _vec(b, 4, 4, [int(v) for v in t["shape"]], b.PrependInt32) if t.get("shape") is not None else None
            sig = _vec(b, 4, 4, [int(v) for v in t["shape_signature"]], b.PrependInt32) if t.get("shape_signature") is not None else None
            q = None
            if t.get("scale") is not None or t.get("zp") is not None:
                sc = np.atleast_1d(np.asarray(t["scale"] if t.get("scale") is not None else [], dtype=np.float32))
                zp = np.atleast_1d(np.asarray(t["zp"] if t.get("zp") is not None else [], dtype=np.int64))
                scv = _vec(b, 4, 4, [float(v) for v in sc], b.PrependFloat32) if len(sc) else None
                zpv = _vec(b, 8, 8, [int(v) for v in zp], b.PrependInt64) if len(zp) else None
                QuantizationParameters.QuantizationParametersStart(b)
                if scv is not None:
                    QuantizationParameters.QuantizationParametersAddScale(b, scv)
                if zpv is not None:
                    QuantizationParameters.QuantizationParametersAddZeroPoint(b, zpv)
                QuantizationParameters.QuantizationParametersAddQuantizedDimension(b, int(t.get("qdim", 0)))
                q = QuantizationParameters.QuantizationParametersEnd(b)
            Tensor.TensorStart(b)
            if shp is not None:
                Tensor.TensorAddShape(b, shp)
            Tensor.TensorAddType(b, DTYPES[t["dtype"]][1])
            Tensor.TensorAddBuffer(b, tbuf.get(i, 0))
            Tensor.TensorAddName(b, name)
            if q is not None:
                Tensor.TensorAddQuantization(b, q)
            if t.get("is_variable"):
                Tensor.TensorAddIsVariable(b, True)
            if sig is not None:
                Tensor.TensorAddShapeSignature(b, sig)
            t_offs.append(Tensor.TensorEnd(b))
        o_offs = []
        for o in ops:
            opt = _build_options(b, o["opts"]) if o.get("opts") else None
            cust = None
            if o.get("custom_options") is not None:
                raw = bytes.fromhex(o["custom_options"])
                cust = _vec(b, 1, 1, list(raw), b.PrependUint8)
            iv = _vec(b, 4, 4, [int(v) for v in o["inputs"]], b.PrependInt32)
            ov = _vec(b, 4, 4, [int(v) for v in o["outputs"]], b.PrependInt32)
            inter = _vec(b, 4, 4, [int(v) for v in o["intermediates"]], b.PrependInt32) if o.get("intermediates") else None
            Operator.OperatorStart(b)
            Operator.OperatorAddOpcodeIndex(b, codes.index((o["code"], o.get("version", 1), o.get("custom_code"))))
            Operator.OperatorAddInputs(b, iv)
            Operator.OperatorAddOutputs(b, ov)
            if opt is not None:
                Operator.OperatorAddBuiltinOptionsType(b, getattr(BOpt, o["opts"]["table"]))
                Operator.OperatorAddBuiltinOptions(b, opt)
            if cust is not None:
                Operator.OperatorAddCustomOptions(b, cust)
            if inter is not None:
                Operator.OperatorAddIntermediates(b, inter)
            o_offs.append(Operator.OperatorEnd(b))
        tv = vec_off(t_offs)
        opv = vec_off(o_offs)
        inv = _vec(b, 4, 4, [int(v) for v in sp["inputs"]], b.PrependInt32)
        outv = _vec(b, 4, 4, [int(v) for v in sp["outputs"]], b.PrependInt32)
        sgname = b.CreateString(sp.get("subgraph_name", "main" if si == 0 else "subgraph_%d" % si))
        SubGraph.SubGraphStart(b)
        SubGraph.SubGraphAddTensors(b, tv)
        SubGraph.SubGraphAddInputs(b, inv)
        SubGraph.SubGraphAddOutputs(b, outv)
        SubGraph.SubGraphAddOperators(b, opv)
        SubGraph.SubGraphAddName(b, sgname)
        sg_offs.append(SubGraph.SubGraphEnd(b))
    sgv = vec_off(sg_offs)
    cv = vec_off(code_offs)
    bv = vec_off(buf_offs)
    desc = b.CreateString(spec.get("description", "verif generated"))
    Model.ModelStart(b)
    Model.ModelAddVersion(b, 3)
    Model.ModelAddOperatorCodes(b, cv)
    Model.ModelAddSubgraphs(b, sgv)
    Model.ModelAddDescription(b, desc)
    Model.ModelAddBuffers(b, bv)
    m = Model.ModelEnd(b)
    b.Finish(m, b"TFL3")
    return bytes(b.Output())

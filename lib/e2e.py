"""shared machinery of the end-to-end (artefact) checks: generate network + configuration, compile in a pristine child,
parse the output without Vela"""
import artefact
import tflgen
import vcompile


def case_strategy(profile="npu", max_ops=6, big=True, small_arena=False, dtypes=None):
    from hypothesis import strategies as st

    @st.composite
    def case(draw):
        kw = dict(max_ops=max_ops, big=big)
        if dtypes:
            kw["dtypes"] = dtypes
        prof = "cascade" if (small_arena and profile == "npu" and draw(st.booleans())) else profile
        spec = draw(tflgen.network(prof, **kw))
        cfg = draw(tflgen.config(small_arena=small_arena))
        if prof in ("cascade", "cascade_short") and draw(st.booleans()):
            cfg["optimise"] = "Size"
        return dict(kind="e2e", spec=spec, cfg=cfg)

    return case()


def compile_case(case, capture=False):
    """-> (Artefact | None, compile result).  None when the compiler did not produce a model (that is C13's business)"""
    res = vcompile.compile_spec(case["spec"], case["cfg"], capture=capture, entry=case.get("entry", "main"))
    if res.get("code") != 0 or res.get("out_model") is None or res.get("exc") is not None:
        return None, res
    return artefact.Artefact(res["out_model"], case["cfg"]["accel"]), res


def schedule_features(art):
    """features of the emitted streams used for non-triviality rules"""
    feats = set()
    if len(art.npu_ops) >= 2:
        feats.add("multi-npu-op")
    for nop in art.npu_ops:
        cmds = nop.cmds()
        kernels = [c for c in cmds if c.kind in ("conv", "depthwise", "pool", "elementwise")]
        if any(c.kind == "dma" for c in cmds):
            feats.add("dma")
        import csdec

        seen_ofm = {}
        for c in kernels:
            f = csdec.fields(c)
            for p in ("ifm", "ofm"):
                fm = f[p]
                if fm["nhcwb16"]:
                    feats.add("nhcwb16")
                if fm["height0"] < (f["ofm"]["height"] if p == "ofm" else 1 << 15) and fm["base"][2] not in (0, fm["base"][0]):
                    feats.add("tiles")
                if fm["region"] == 2:
                    feats.add("region2")
            if f.get("weights") and f["weights"]["length"][1]:
                feats.add("2-cores")
        if len(kernels) >= 2:
            feats.add("multi-kernel")
    return feats

"""coarse structural features of a generated case, appended to violation buckets so that a recorded known finding masks
only the construct it was recorded for (a different violation of the same property is still reported)"""

SLICERS = ("SLICE", "STRIDED_SLICE", "SPLIT", "SPLIT_V")


def tags(spec, cfg=None):
    out = []
    prod = {}
    for o in spec["ops"]:
        for t in o["outputs"]:
            prod[t] = o

    def data_input(o):
        if not o["inputs"]:
            return None
        idx = {"SPLIT": 1, "TRANSPOSE_CONV": 2}.get(o["code"], 0)
        return o["inputs"][idx] if idx < len(o["inputs"]) else None

    def source(o, through=("PAD",)):
        t = data_input(o)
        src = prod.get(t)
        while src is not None and src["code"] in through:
            src = prod.get(data_input(src))
        return src

    for o in spec["ops"]:
        f = (o.get("opts") or {}).get("fields", {})
        src = source(o)
        strided = f.get("StrideW", 1) > 1 or f.get("StrideH", 1) > 1
        if src is not None and src["code"] in SLICERS:
            if strided and o["code"] in ("CONV_2D", "DEPTHWISE_CONV_2D", "MAX_POOL_2D", "AVERAGE_POOL_2D"):
                out.append("slice-feeds-strided-op")
            if o["code"] == "SOFTMAX":
                out.append("slice-feeds-softmax")
            if o["code"] == "TRANSPOSE_CONV":
                out.append("slice-feeds-tconv")
            if o["code"] in ("RESIZE_BILINEAR", "RESIZE_NEAREST_NEIGHBOR"):
                out.append("slice-feeds-resize")
        direct = prod.get(data_input(o))
        if o["code"] in ("RESHAPE", "SQUEEZE", "EXPAND_DIMS") and direct is not None:
            out.append("reshape-after-" + direct["code"])
        if direct is not None and direct["code"] in ("RESHAPE", "SQUEEZE", "EXPAND_DIMS"):
            out.append(o["code"] + "-after-reshape")
        if o["code"] == "MEAN" and direct is not None and direct["code"] == "PAD":
            out.append("pad-feeds-mean")
        if o["code"] == "RESIZE_NEAREST_NEIGHBOR" and f.get("AlignCorners"):
            out.append("resize-nn-align-corners")
        if o["code"] == "AVERAGE_POOL_2D" and (f.get("StrideW", 1) > 3 or f.get("StrideH", 1) > 3) and spec["tensors"][o["inputs"][0]]["dtype"] == "int16":
            out.append("int16-avgpool-wide-stride")
        if o["code"] == "UNIDIRECTIONAL_SEQUENCE_LSTM" and not f.get("TimeMajor"):
            out.append("lstm-batch-major")
        if o["code"] == "CONCATENATION" and len(set(o["inputs"])) < len(o["inputs"]):
            out.append("concat-duplicate-input")
        if o["code"] == "CONCATENATION" and spec["tensors"][o["outputs"][0]]["shape"][:1] not in ([1], []):
            out.append("concat-batch>1")
        if o["code"] == "CONCATENATION" and spec["tensors"][o["outputs"][0]]["dtype"] == "int32":
            out.append("concat-int32")
    for c in spec.get("corners", []):  # corner features applied by lib/corners.py: "odd-quant/huge/activation" -> "corner:odd-quant/huge"
        parts = c.split("/")
        out.append("corner:" + "/".join(parts[:2] if parts[0] == "odd-quant" else parts[:1]))
    if len(set(spec["outputs"])) < len(spec["outputs"]):
        out.append("outputs-duplicate")
    consumed = set(t for o in spec["ops"] for t in o["inputs"])
    if any(t in consumed for t in spec["outputs"]):
        out.append("output-has-consumer")
    if cfg is not None and cfg.get("arena_cache_size") is not None:
        out.append("explicit-arena-cache-size")
    return tuple(sorted(set(out)))

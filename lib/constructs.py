"""coarse structural features of a generated network, appended to violation buckets so that a recorded known finding masks
only the construct it was recorded for (a different violation of the same property is still reported)"""

SLICERS = ("SLICE", "STRIDED_SLICE", "SPLIT", "SPLIT_V")


def tags(spec):
    out = []
    prod = {}
    for o in spec["ops"]:
        for t in o["outputs"]:
            prod[t] = o
    for o in spec["ops"]:
        f = (o.get("opts") or {}).get("fields", {})
        src = prod.get(o["inputs"][0]) if o["inputs"] and o["inputs"][0] in prod else None
        if o["code"] in ("SPLIT",) and len(o["inputs"]) > 1:
            src = prod.get(o["inputs"][1])
        strided = f.get("StrideW", 1) > 1 or f.get("StrideH", 1) > 1
        if src is not None and src["code"] in SLICERS:
            if strided and o["code"] in ("CONV_2D", "DEPTHWISE_CONV_2D", "MAX_POOL_2D", "AVERAGE_POOL_2D"):
                out.append("slice-feeds-strided-op")
            if o["code"] == "SOFTMAX":
                out.append("slice-feeds-softmax")
    return "".join("+" + t for t in sorted(set(out)))

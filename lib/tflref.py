"""E-ref: TFLite reference semantics re-written on Python ints / exact rationals (no NumPy promotion can leak in).

Only what the checks need; every function is written from the TFLite reference kernels' definition.
"""
import math
from fractions import Fraction

INT32_MIN, INT32_MAX = -(1 << 31), (1 << 31) - 1


def tflite_round(x: float) -> int:
    """TfLiteRound = std::round: half away from zero"""
    return int(math.floor(x + 0.5)) if x >= 0 else -int(math.floor(-x + 0.5))


def quantize_multiplier(d: float):
    """tflite::QuantizeMultiplier(double) -> (quantized_multiplier in [2^30, 2^31), shift) ; value = m * 2^(shift-31)"""
    d = float(d)
    if d == 0.0:
        return 0, 0
    q, shift = math.frexp(d)
    q_fixed = tflite_round(q * (1 << 31))
    assert q_fixed <= (1 << 31)
    if q_fixed == (1 << 31):
        q_fixed //= 2
        shift += 1
    if shift < -31:
        return 0, 0
    if shift > 30:
        shift = 30
        q_fixed = (1 << 31) - 1
    return q_fixed, shift


def multiplier_value(m: int, tfl_shift: int) -> Fraction:
    return Fraction(m) * Fraction(2) ** (tfl_shift - 31)


def srdhm(a: int, b: int) -> int:
    """SaturatingRoundingDoublingHighMul on int32"""
    if a == INT32_MIN and b == INT32_MIN:
        return INT32_MAX
    ab = a * b
    nudge = (1 << 30) if ab >= 0 else 1 - (1 << 30)
    x = ab + nudge
    q = abs(x) >> 31  # C++ division truncates toward zero
    return q if x >= 0 else -q


def rounding_divide_by_pot(x: int, e: int) -> int:
    if e == 0:
        return x
    mask = (1 << e) - 1
    rem = x & mask
    thr = (mask >> 1) + (1 if x < 0 else 0)
    return (x >> e) + (1 if rem > thr else 0)


def multiply_by_quantized_multiplier(x: int, m: int, shift: int) -> int:
    left = shift if shift > 0 else 0
    right = -shift if shift < 0 else 0
    return rounding_divide_by_pot(srdhm(x * (1 << left), m), right)


def round_half_away(fr: Fraction) -> int:
    if fr >= 0:
        return int(math.floor(fr + Fraction(1, 2)))
    return -int(math.floor(-fr + Fraction(1, 2)))


def round_half_up(fr: Fraction) -> int:
    return int(math.floor(fr + Fraction(1, 2)))


def avgpool_reference(acc: int, n: int) -> int:
    """TFLite integer average pool: acc > 0 ? (acc + n/2)/n : (acc - n/2)/n with C truncation"""
    if acc > 0:
        return (acc + n // 2) // n
    v = acc - n // 2
    return -((-v) // n)


def add_sub_params(s1: float, s2: float, so: float, bits: int):
    """tflite Add/Sub Prepare (8-bit: left_shift 20, 16-bit general case: 15):
    returns (left_shift, (m1,e1), (m2,e2), (mo,eo)) with QuantizeMultiplierSmallerThanOneExp results"""
    left_shift = 20 if bits == 8 else 15
    twice_max = 2.0 * max(float(s1), float(s2))
    r1 = float(s1) / twice_max
    r2 = float(s2) / twice_max
    ro = twice_max / ((1 << left_shift) * float(so))
    return left_shift, quantize_multiplier(r1), quantize_multiplier(r2), quantize_multiplier(ro)


def mul_params(s1: float, s2: float, so: float):
    return quantize_multiplier(float(s1) * float(s2) / float(so))

"""E-ref: TFLite reference semantics re-written on Python ints / exact rationals (no NumPy promotion can leak in).

Only what the checks need; every function is written from the TFLite reference kernels' definition.
"""
import math
from fractions import Fraction

INT32_MIN, INT32_MAX = -(1 << 31), (1 << 31) - 1


def tflite_round(x: float) -> int:
    """TfLiteRound = std::round: half away from zero"""
    return int(math.floor(x + 0.5)) if x >= 0 else -int(math.floor(-x + 0.5))


def quantize_multiplier(d: float):
    """tflite::QuantizeMultiplier(double) -> (quantized_multiplier in [2^30, 2^31), shift) ; value = m * 2^(shift-31)"""
    d = float(d)
    if d == 0.0:
        return 0, 0
    q, shift = math.frexp(d)
    q_fixed = tflite_round(q * (1 << 31))
    assert q_fixed <= (1 << 31)
    if q_fixed == (1 << 31):
        q_fixed //= 2
        shift += 1
    if shift < -31:
        return 0, 0
    if shift > 30:
        shift = 30
        q_fixed = (1 << 31) - 1
    return q_fixed, shift


def multiplier_value(m: int, tfl_shift: int) -> Fraction:
    return Fraction(m) * Fraction(2) ** (tfl_shift - 31)


def srdhm(a: int, b: int) -> int:
    """SaturatingRoundingDoublingHighMul on int32"""
    if a == INT32_MIN and b == INT32_MIN:
        return INT32_MAX
    ab = a * b
    nudge = (1 << 30) if ab >= 0 else 1 - (1 << 30)
    x = ab + nudge
    q = abs(x) >> 31  # C++ division truncates toward zero
    return q if x >= 0 else -q


def rounding_divide_by_pot(x: int, e: int) -> int:
    if e == 0:
        return x
    mask = (1 << e) - 1
    rem = x & mask
    thr = (mask >> 1) + (1 if x < 0 else 0)
    return (x >> e) + (1 if rem > thr else 0)


def multiply_by_quantized_multiplier(x: int, m: int, shift: int) -> int:
    left = shift if shift > 0 else 0
    right = -shift if shift < 0 else 0
    return rounding_divide_by_pot(srdhm(x * (1 << left), m), right)


def round_half_away(fr: Fraction) -> int:
    if fr >= 0:
        return int(math.floor(fr + Fraction(1, 2)))
    return -int(math.floor(-fr + Fraction(1, 2)))


def round_half_up(fr: Fraction) -> int:
    return int(math.floor(fr + Fraction(1, 2)))


def avgpool_reference(acc: int, n: int) -> int:
    """TFLite integer average pool: acc > 0 ? (acc + n/2)/n : (acc - n/2)/n with C truncation"""
    if acc > 0:
        return (acc + n // 2) // n
    v = acc - n // 2
    return -((-v) // n)


def add_sub_params(s1: float, s2: float, so: float, bits: int):
    """tflite Add/Sub Prepare (8-bit: left_shift 20, 16-bit general case: 15):
    returns (left_shift, (m1,e1), (m2,e2), (mo,eo)) with QuantizeMultiplierSmallerThanOneExp results"""
    left_shift = 20 if bits == 8 else 15
    twice_max = 2.0 * max(float(s1), float(s2))
    r1 = float(s1) / twice_max
    r2 = float(s2) / twice_max
    ro = twice_max / ((1 << left_shift) * float(so))
    return left_shift, quantize_multiplier(r1), quantize_multiplier(r2), quantize_multiplier(ro)


def mul_params(s1: float, s2: float, so: float):
    return quantize_multiplier(float(s1) * float(s2) / float(so))


# ---- gemmlowp fixed point pieces used by the quantised SOFTMAX reference kernel (reference/softmax.h) -------------------------------
def _shl_sat(a: int, off: int) -> int:
    return min(max(a * (1 << off), INT32_MIN), INT32_MAX)


def exp_on_negative_values(a: int) -> int:
    """gemmlowp exp_on_negative_values: FixedPoint<int32,5> raw input (<= 0), result FixedPoint<int32,0> raw"""
    if a == 0:
        return INT32_MAX
    one_quarter = 1 << 24
    a_mod = (a & (one_quarter - 1)) - one_quarter
    x0 = _shl_sat(a_mod, 5)
    constant_term, c13 = 1895147668, 715827883
    x = x0 + (1 << 28)
    x2 = srdhm(x, x)
    x3 = srdhm(x2, x)
    x4 = srdhm(x2, x2)
    x4_4 = rounding_divide_by_pot(x4, 2)
    t = rounding_divide_by_pot(srdhm(x4_4 + x3, c13) + x2, 1)
    result = constant_term + srdhm(constant_term, x + t)
    remainder = a_mod - a
    for exponent, mult in ((-2, 1672461947), (-1, 1302514674), (0, 790015084), (1, 290630308), (2, 39332535), (3, 720401), (4, 242)):
        if remainder & (1 << (26 + exponent)):
            result = srdhm(result, mult)
    return result


def one_over_one_plus_x_for_x_in_0_1(a: int) -> int:
    """gemmlowp: a = FixedPoint<int32,0> raw in [0,1) -> 1/(1+a) as FixedPoint<int32,0> raw (Newton-Raphson, 3 iterations)"""
    s = a + INT32_MAX  # RoundingHalfSum(a, One)
    half_denominator = (s + (1 if s >= 0 else -1)) // 2 if s >= 0 else -((-s + 1) // 2)
    x = 1515870810 + srdhm(half_denominator, -1010580540)  # F2
    for _ in range(3):
        hdx = srdhm(half_denominator, x)  # F2
        one_minus = (1 << 29) - hdx  # F2::One() = 2^29
        x = x + _shl_sat(srdhm(x, one_minus), 2)  # F4 -> F2
    return _shl_sat(x, 1)  # ExactMulByPot<-1> then Rescale<0>


def softmax_params(beta: float, input_scale: float):
    """PreprocessSoftmaxScaling(beta, input_scale, 5) + CalculateInputRadius(5, shift, 31): (multiplier, left_shift, diff_min)"""
    real = min(float(beta) * float(input_scale) * (1 << 26), float((1 << 31) - 1))
    m, shift = quantize_multiplier(real)
    radius = math.floor(31.0 * (1 << 26) / (1 << shift)) if shift >= 0 else math.floor(31.0 * (1 << 26) * (1 << -shift))
    return m, shift, -int(radius)


def softmax_row_q8(row, beta: float, input_scale: float, out_min: int, out_max: int, _cache=None):
    """reference_ops::Softmax (8-bit, gemmlowp fixed point) over one row of raw quantised input codes; the result does not depend on the input zero point"""
    m, shift, diff_min = softmax_params(beta, input_scale)
    mx = max(row)
    cache = {} if _cache is None else _cache

    def exp_of(diff):
        if diff not in cache:
            cache[diff] = exp_on_negative_values(multiply_by_quantized_multiplier(diff, m, shift))
        return cache[diff]

    total = 0
    for v in row:
        d = v - mx
        if d >= diff_min:
            total += rounding_divide_by_pot(exp_of(d), 12)
    if total >= (1 << 31):
        raise OverflowError("sum of exponentials exceeds the reference kernel's 32-bit accumulator (Q12.19: rows of more than 4096 near-maximal elements)")
    headroom_plus_one = 32 - total.bit_length() if total > 0 else 32
    num_bits_over_unit = 12 - headroom_plus_one
    shifted_sum_minus_one = ((total << headroom_plus_one) & 0xFFFFFFFF) - (1 << 31)
    shifted_scale = one_over_one_plus_x_for_x_in_0_1(shifted_sum_minus_one)
    out = []
    for v in row:
        d = v - mx
        if d >= diff_min:
            unsat = rounding_divide_by_pot(srdhm(shifted_scale, exp_of(d)), num_bits_over_unit + 31 - 8)
            out.append(min(out_max, max(out_min, unsat + out_min)))
        else:
            out.append(out_min)
    return out

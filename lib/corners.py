"""corner features for C13: transformations of a generated network spec that keep the flatbuffer structurally valid (every index in range, every table
well formed, operand roles and shapes as a converter or a model-editing tool can emit them) but leave the beaten path of converter output:

  strip-const      a constant operand loses its data (buffer 0) - what strip_buffers / weight stripping produces
  cut-input        a model input is no longer listed in the subgraph inputs (a model cut out of a larger one): a tensor without producer, data or input role
  empty-const      an unused zero-length constant (shape [0], own empty buffer); or an optional bias replaced by it
  variable         a tensor is flagged is_variable (with or without initial data)
  axis-rank1       a scalar axis / index operand becomes a 1-D tensor with one element (both spellings are accepted by the TFLite kernels, which read element 0)
  no-quant         an activation tensor loses its quantisation parameters
  odd-quant        scale 0 / denormal / huge / inf / nan, zero point outside the type range, per-axis scales on an activation, scale without zero point
  shape-signature  a tensor carries a shape_signature with a dynamic (-1) batch
  dead-op          an extra operator whose result nobody consumes, or an unused tensor
  dup-names        two tensors share a name
  self-binary      a binary operator reads the same tensor twice
  output-is-input  a model input is also listed as a model output; an output listed twice
  wide-dtype       an element-wise operator on int32 tensors

Each transformation returns the name of what it did (or None when not applicable to this network); the list is kept in spec["corners"].
"""
import copy


def _const_operands(spec):
    out = []
    for oi, o in enumerate(spec["ops"]):
        for k, t in enumerate(o["inputs"]):
            if t is not None and t >= 0 and spec["tensors"][t].get("data") is not None:
                out.append((oi, k, t))
    return out


def _activations(spec):
    produced = {t for o in spec["ops"] for t in o["outputs"]}
    return sorted(produced | set(spec["inputs"]))


def strip_const(spec, draw, st):
    c = _const_operands(spec)
    if not c:
        return None
    oi, k, t = draw(st.sampled_from(c))
    spec["tensors"][t]["data"] = None
    return "strip-const/%s.%d" % (spec["ops"][oi]["code"], k)


def cut_input(spec, draw, st):
    if not spec["inputs"]:
        return None
    i = draw(st.integers(0, len(spec["inputs"]) - 1))
    spec["inputs"] = spec["inputs"][:i] + spec["inputs"][i + 1:]
    return "cut-input"


def empty_const(spec, draw, st):
    t = dict(name="empty_const_%d" % len(spec["tensors"]), shape=[0], dtype=draw(st.sampled_from(["int32", "int8", "float32"])), scale=None, zp=None, data=None, own_empty_buffer=True)
    spec["tensors"].append(t)
    idx = len(spec["tensors"]) - 1
    withbias = [(oi, o) for oi, o in enumerate(spec["ops"]) if o["code"] in ("CONV_2D", "DEPTHWISE_CONV_2D", "FULLY_CONNECTED") and len(o["inputs"]) == 3 and o["inputs"][2] >= 0]
    if withbias and draw(st.booleans()):
        oi, o = draw(st.sampled_from(withbias))
        o["inputs"][2] = idx
        return "empty-const/bias-of-%s" % o["code"]
    return "empty-const/unused"


def variable(spec, draw, st):
    cands = list(range(len(spec["tensors"])))
    t = draw(st.sampled_from(cands))
    spec["tensors"][t]["is_variable"] = True
    T = spec["tensors"][t]
    role = "const" if T.get("data") is not None else "input" if t in spec["inputs"] else "activation"
    return "variable/%s" % role


AXIS_OPERAND = {"SPLIT": 0, "MEAN": 1, "ARG_MAX": 1, "ARG_MIN": 1, "EXPAND_DIMS": 1, "SUM": 1, "REDUCE_MAX": 1, "REDUCE_MIN": 1, "GATHER": None}


def axis_rank1(spec, draw, st):
    cands = []
    for o in spec["ops"]:
        k = AXIS_OPERAND.get(o["code"])
        if k is None or k >= len(o["inputs"]):
            continue
        t = o["inputs"][k]
        T = spec["tensors"][t]
        if T.get("data") is not None and "values" in T["data"] and len(T["data"]["values"]) == 1:
            cands.append((o, t))
    if not cands:
        return None
    o, t = draw(st.sampled_from(cands))
    T = spec["tensors"][t]
    T["shape"] = [1] if list(T["shape"]) == [] else []
    return "axis-rank1/%s-%s" % (o["code"], "vector" if T["shape"] else "scalar")


def no_quant(spec, draw, st):
    acts = [t for t in _activations(spec) if spec["tensors"][t].get("scale") is not None]
    if not acts:
        return None
    t = draw(st.sampled_from(acts))
    spec["tensors"][t]["scale"] = None
    spec["tensors"][t]["zp"] = None
    return "no-quant/%s" % ("input" if t in spec["inputs"] else "output" if t in spec["outputs"] else "intermediate")


def odd_quant(spec, draw, st):
    q = [i for i, T in enumerate(spec["tensors"]) if T.get("scale") is not None]
    if not q:
        return None
    t = draw(st.sampled_from(q))
    T = spec["tensors"][t]
    kind = draw(st.sampled_from(["zero", "denormal", "huge", "inf", "nan", "negative", "zp-out-of-range", "per-axis-activation", "scale-only", "tiny"]))
    n = len(T["scale"]) if isinstance(T["scale"], list) else None
    def rep(v):
        return [v] * n if n else v
    if kind == "zero":
        T["scale"] = rep(0.0)
    elif kind == "denormal":
        T["scale"] = rep(1e-45)
    elif kind == "tiny":
        T["scale"] = rep(1e-30)
    elif kind == "huge":
        T["scale"] = rep(1e30)
    elif kind == "inf":
        T["scale"] = rep(float("inf"))
    elif kind == "nan":
        T["scale"] = rep(float("nan"))
    elif kind == "negative":
        T["scale"] = rep(-0.5)
    elif kind == "zp-out-of-range":
        T["zp"] = [100000] * n if n else 100000
    elif kind == "per-axis-activation":
        if n or not T["shape"] or T.get("data") is not None:
            return None
        c = int(T["shape"][-1])
        if c < 1 or c > 64:
            return None
        T["scale"] = [0.01 * (k + 1) for k in range(c)]
        T["zp"] = [0] * c
        T["qdim"] = len(T["shape"]) - 1
    elif kind == "scale-only":
        T["zp"] = None
    role = "const" if T.get("data") is not None else "activation"
    return "odd-quant/%s/%s" % (kind, role)


def scale_only(spec, draw, st):
    """an activation (model input/output or an intermediate) or a constant keeps its scale but has no zero-point vector (every vector of the table is optional)"""
    q = [i for i, T in enumerate(spec["tensors"]) if T.get("scale") is not None and T.get("zp") is not None and not isinstance(T["scale"], list)]
    pref = [i for i in q if i in spec["inputs"] or i in spec["outputs"]]
    if not q:
        return None
    t = draw(st.sampled_from(pref if pref and draw(st.booleans()) else q))
    spec["tensors"][t]["zp"] = None
    return "scale-only/%s" % ("interface" if t in pref else "inner")


def shape_signature(spec, draw, st):
    acts = [t for t in _activations(spec) if spec["tensors"][t]["shape"]]
    if not acts:
        return None
    which = acts if draw(st.booleans()) else [draw(st.sampled_from(acts))]
    for t in which:
        T = spec["tensors"][t]
        T["shape_signature"] = [-1] + [int(v) for v in T["shape"][1:]]
    return "shape-signature/%s" % ("all" if len(which) > 1 else "one")


def dead_op(spec, draw, st):
    acts = [t for t in _activations(spec) if spec["tensors"][t]["dtype"] in ("int8", "uint8", "int16")]
    if not acts or draw(st.integers(0, 3)) == 0:
        spec["tensors"].append(dict(name="unused_%d" % len(spec["tensors"]), shape=[1, 2, 2, 3], dtype="int8", scale=0.5, zp=0, data=None))
        return "dead-op/unused-tensor"
    t = draw(st.sampled_from(acts))
    T = spec["tensors"][t]
    new = dict(name="dead_out_%d" % len(spec["tensors"]), shape=list(T["shape"]), dtype=T["dtype"], scale=T.get("scale"), zp=T.get("zp"), data=None)
    spec["tensors"].append(new)
    code = draw(st.sampled_from(["RELU", "LOGISTIC", "ABS"]))
    # keep the operator list topologically ordered: directly after the producer of t (or first)
    pos = 0
    for oi, o in enumerate(spec["ops"]):
        if t in o["outputs"]:
            pos = oi + 1
    spec["ops"].insert(pos, dict(code=code, inputs=[t], outputs=[len(spec["tensors"]) - 1], opts=None, version=1, custom_code=None, custom_options=None))
    return "dead-op/%s" % code


def dup_names(spec, draw, st):
    if len(spec["tensors"]) < 2:
        return None
    a = draw(st.integers(0, len(spec["tensors"]) - 1))
    b = draw(st.integers(0, len(spec["tensors"]) - 1))
    if a == b:
        return None
    spec["tensors"][a]["name"] = spec["tensors"][b]["name"]
    return "dup-names"


def unnamed_consts(spec, draw, st):
    """names are labels, not identities: converters leave constants unnamed and third-party exporters repeat result names ("custom") - every constant, or every result of
    the CPU-resident operator kinds, gets one and the same name"""
    consts = [t for t in spec["tensors"] if t.get("data") is not None]
    mode = draw(st.sampled_from(["consts", "consts", "results", "both"]))
    done = False
    if mode in ("consts", "both") and len(consts) >= 2:
        nm = draw(st.sampled_from(["", "const", "Const"]))
        for t in consts:
            t["name"] = nm
        done = True
    if mode in ("results", "both"):
        res = [spec["tensors"][o["outputs"][0]] for o in spec["ops"] if o["outputs"] and o["outputs"][0] not in spec["outputs"] and o["outputs"][0] not in spec["inputs"]]
        if len(res) >= 2:
            for t in res:
                t["name"] = "custom"
            done = True
    return "unnamed/%s" % mode if done else None


def self_binary(spec, draw, st):
    c = [o for o in spec["ops"] if o["code"] in ("ADD", "SUB", "MUL", "MAXIMUM", "MINIMUM", "SQUARED_DIFFERENCE") and len(o["inputs"]) == 2
         and spec["tensors"][o["inputs"][0]].get("data") is None and spec["tensors"][o["inputs"][0]]["shape"] == spec["tensors"][o["outputs"][0]]["shape"]]
    if not c:
        return None
    o = draw(st.sampled_from(c))
    o["inputs"][1] = o["inputs"][0]
    return "self-binary/%s" % o["code"]


def output_is_input(spec, draw, st):
    if draw(st.booleans()) and spec["inputs"]:
        spec["outputs"] = list(spec["outputs"]) + [spec["inputs"][0]]
        return "output-is-input"
    if spec["outputs"]:
        spec["outputs"] = list(spec["outputs"]) + [spec["outputs"][0]]
        return "output-twice"
    return None


def wide_dtype(spec, draw, st):
    """element-wise operator on int32 tensors appended to an int32 view of nothing: a fresh int32 model input feeding ADD/MUL/SUB/RELU/MAXIMUM; its result is a model output"""
    shape = draw(st.sampled_from([[1, 4, 4, 8], [1, 8], [3], [1, 1, 1, 16], [2, 3, 4]]))
    a = dict(name="i32_in_%d" % len(spec["tensors"]), shape=shape, dtype="int32", scale=draw(st.sampled_from([None, 1.0, 0.5])), zp=None, data=None)
    if a["scale"] is not None:
        a["zp"] = 0
    spec["tensors"].append(a)
    ai = len(spec["tensors"]) - 1
    spec["inputs"] = list(spec["inputs"]) + [ai]
    code = draw(st.sampled_from(["ADD", "MUL", "SUB", "MAXIMUM", "MINIMUM", "ABS", "RELU"]))
    ins = [ai]
    if code in ("ADD", "MUL", "SUB", "MAXIMUM", "MINIMUM"):
        if draw(st.booleans()):
            b = dict(a, name="i32_const_%d" % len(spec["tensors"]), data=dict(seed=draw(st.integers(0, 1000)), lo=-100000, hi=100000))
            spec["tensors"].append(b)
            ins.append(len(spec["tensors"]) - 1)
        else:
            ins.append(ai)
    o = dict(a, name="i32_out_%d" % len(spec["tensors"]), data=None)
    spec["tensors"].append(o)
    oi = len(spec["tensors"]) - 1
    opts = {"ADD": ("AddOptions", dict(FusedActivationFunction=draw(st.sampled_from([0, 0, 1])))), "MUL": ("MulOptions", dict(FusedActivationFunction=0)),
            "SUB": ("SubOptions", dict(FusedActivationFunction=0))}.get(code)
    spec["ops"].append(dict(code=code, inputs=ins, outputs=[oi], opts=dict(table=opts[0], fields=opts[1]) if opts else None, version=1, custom_code=None, custom_options=None))
    spec["outputs"] = list(spec["outputs"]) + [oi]
    return "wide-dtype/%s" % code


CUSTOM_NAMES = ["alpha_op", "zeta_op", "MyCustomOp", "TFLite_Detection_PostProcess", "Foo", "bar", "Qux", "op_17", "Mfcc", "AudioSpectrogram", "x", "FlexAddV2"]


def custom_tail(spec, draw, st, n=None):
    """2-4 third-party custom operators with different custom codes (same version) chained behind the first model output: what is hashed (strings) differs per operator"""
    if not spec["outputs"]:
        return None
    cur = spec["outputs"][0]
    names = draw(st.permutations(CUSTOM_NAMES))[: n or draw(st.integers(2, 4))]
    for k, nm in enumerate(names):
        T = spec["tensors"][cur]
        spec["tensors"].append(dict(name="custom_out_%d_%d" % (k, len(spec["tensors"])), shape=list(T["shape"]), dtype=T["dtype"], scale=T.get("scale"), zp=T.get("zp"), data=None))
        o = len(spec["tensors"]) - 1
        spec["ops"].append(dict(code="CUSTOM", inputs=[cur], outputs=[o], opts=None, version=1, custom_code=nm, custom_options=draw(st.binary(min_size=0, max_size=8)).hex()))
        cur = o
    spec["outputs"] = [cur] + list(spec["outputs"][1:])
    return "custom-tail/%d" % len(names)


def asym_perchannel(spec, draw, st):
    """per-channel quantised weights with non-zero zero points (what --force-symmetric-int-weights exists for)"""
    c = [t for (oi, k, t) in _const_operands(spec) if k == 1 and spec["tensors"][t]["dtype"] == "int8" and spec["ops"][oi]["code"] in ("CONV_2D", "DEPTHWISE_CONV_2D", "FULLY_CONNECTED", "TRANSPOSE_CONV")]
    if not c:
        return None
    t = draw(st.sampled_from(c))
    T = spec["tensors"][t]
    if isinstance(T.get("zp"), list):
        T["zp"] = [draw(st.integers(-3, 3)) or 1 for _ in T["zp"]]
        return "asym-perchannel"
    T["zp"] = draw(st.integers(-5, 5)) or 2
    return "asym-pertensor"


def pad_tail(spec, draw, st):
    """PAD of the channel dimension together with height/width behind the first model output (the compiler splits such a PAD and rewrites its constant paddings)"""
    if not spec["outputs"]:
        return None
    cur = spec["outputs"][0]
    T = spec["tensors"][cur]
    if len(T["shape"]) != 4 or T["dtype"] not in ("int8", "uint8") or T.get("scale") is None or isinstance(T["scale"], list):
        return None
    p = [[0, 0], [draw(st.integers(0, 2)), draw(st.integers(1, 2))], [draw(st.integers(0, 2)), draw(st.integers(0, 2))], [draw(st.integers(1, 3)), draw(st.integers(0, 3))]]
    n = len(spec["tensors"])
    spec["tensors"].append(dict(name="pads_tail_%d" % n, shape=[4, 2], dtype="int32", scale=None, zp=None, data=dict(values=[v for pr in p for v in pr])))
    spec["tensors"].append(dict(name="pad_tail_%d" % n, shape=[s_ + a + b for s_, (a, b) in zip(T["shape"], p)], dtype=T["dtype"], scale=T["scale"], zp=T["zp"], data=None))
    spec["ops"].append(dict(code="PAD", inputs=[cur, n], outputs=[n + 1], opts=dict(table="PadOptions", fields={}), version=2, custom_code=None, custom_options=None))
    spec["outputs"] = [n + 1] + list(spec["outputs"][1:])
    return "pad-tail"


def while_tail(spec, draw, st):
    """a WHILE loop behind the first model output: condition subgraph (LESS on a counter) and body subgraph (counter + 1, an element-wise step on the value) - three subgraphs
    in one model, constants in each of them"""
    if spec.get("subgraphs") or not spec["outputs"]:
        return None
    cur = spec["outputs"][0]
    T = spec["tensors"][cur]
    if T["dtype"] not in ("int8", "uint8", "int16") or T.get("scale") is None or isinstance(T["scale"], list) or T.get("zp") is None:
        return None
    n = len(spec["tensors"])
    val = dict(shape=list(T["shape"]), dtype=T["dtype"], scale=T["scale"], zp=T["zp"], data=None)
    cnt = dict(shape=[], dtype="int32", scale=None, zp=None, data=None)
    spec["tensors"].append(dict(cnt, name="loop_i0_%d" % n, data=dict(values=[0])))
    spec["tensors"].append(dict(cnt, name="loop_i_out_%d" % n))
    spec["tensors"].append(dict(val, name="loop_val_out_%d" % n))
    spec["ops"].append(dict(code="WHILE", inputs=[n, cur], outputs=[n + 1, n + 2], opts=dict(table="WhileOptions", fields=dict(CondSubgraphIndex=1, BodySubgraphIndex=2)), version=1,
                            custom_code=None, custom_options=None))
    spec["outputs"] = [n + 2] + list(spec["outputs"][1:])
    cond = dict(subgraph_name="loop_cond", tensors=[dict(cnt, name="c_i"), dict(val, name="c_val"), dict(cnt, name="c_limit", data=dict(values=[draw(st.integers(1, 3))])),
                                                   dict(shape=[], dtype="bool", scale=None, zp=None, data=None, name="c_less")],
                ops=[dict(code="LESS", inputs=[0, 2], outputs=[3], opts=dict(table="LessOptions", fields={}), version=1, custom_code=None, custom_options=None)], inputs=[0, 1], outputs=[3])
    step = draw(st.sampled_from(["RELU", "ADD", "LOGISTIC"]))
    bt = [dict(cnt, name="b_i"), dict(val, name="b_val"), dict(cnt, name="b_one", data=dict(values=[1])), dict(cnt, name="b_i_next"), dict(val, name="b_val_next")]
    bops = [dict(code="ADD", inputs=[0, 2], outputs=[3], opts=dict(table="AddOptions", fields=dict(FusedActivationFunction=0)), version=1, custom_code=None, custom_options=None)]
    if step == "ADD":
        bt.append(dict(val, name="b_k", shape=[1] * len(T["shape"]), data=dict(seed=draw(st.integers(0, 999)), lo=-20, hi=20) if T["dtype"] != "uint8" else dict(seed=3, lo=0, hi=40)))
        bops.append(dict(code="ADD", inputs=[1, 5], outputs=[4], opts=dict(table="AddOptions", fields=dict(FusedActivationFunction=0)), version=2, custom_code=None, custom_options=None))
    else:
        if step == "LOGISTIC" and T["dtype"] in ("int8", "uint8"):
            bt[4] = dict(bt[4], scale=1.0 / 256, zp=-128 if T["dtype"] == "int8" else 0)
            spec["tensors"][n + 2].update(scale=bt[4]["scale"], zp=bt[4]["zp"])
        else:
            step = "RELU"
        bops.append(dict(code=step, inputs=[1], outputs=[4], opts=None, version=1, custom_code=None, custom_options=None))
    body = dict(subgraph_name="loop_body", tensors=bt, ops=bops, inputs=[0, 1], outputs=[3, 4])
    spec["subgraphs"] = [cond, body]
    return "while-tail/%s" % step


def call_once_head(spec, draw, st):
    """a CALL_ONCE operator in front of everything: an initialisation subgraph without inputs that holds a constant and one operator whose result is the subgraph's output
    (a subgraph whose operators reach no output at all - possible only with resource-variable operators, which are not generated - is outside this generator)"""
    if spec.get("subgraphs"):
        return None
    init = dict(subgraph_name="init", tensors=[dict(name="init_k", shape=[1, 4], dtype="int8", scale=0.5, zp=0, data=dict(seed=draw(st.integers(0, 999)), lo=-50, hi=50)),
                                                 dict(name="init_t", shape=[1, 4], dtype="int8", scale=0.5, zp=0, data=None)],
                ops=[dict(code="RELU", inputs=[0], outputs=[1], opts=None, version=1, custom_code=None, custom_options=None)], inputs=[], outputs=[1])
    spec["ops"].insert(0, dict(code="CALL_ONCE", inputs=[], outputs=[], opts=dict(table="CallOnceOptions", fields=dict(InitSubgraphIndex=1)), version=1, custom_code=None, custom_options=None))
    spec["subgraphs"] = [init]
    return "call-once-head"


TRANSFORMS = [asym_perchannel, strip_const, cut_input, empty_const, variable, axis_rank1, no_quant, odd_quant, shape_signature, dead_op, dup_names, self_binary, output_is_input, wide_dtype, while_tail, call_once_head]


def apply(spec, draw, st, max_n=2):
    """applies 1..max_n corner transformations to a copy of spec"""
    spec = copy.deepcopy(spec)
    done = []
    for _ in range(draw(st.integers(1, max_n))):
        f = draw(st.sampled_from(TRANSFORMS))
        r = f(spec, draw, st)
        if r:
            done.append(r)
    spec["corners"] = done
    return spec

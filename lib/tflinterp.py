"""E-ref: reference interpreter for generated TFLite networks (integer kernels re-written from the TFLite reference
definitions, NumPy int64 with explicit saturation).  Operates on a parsed model (vmodel.load) so it serves both the
source model and the CPU-resident part of an output model.

run_ops(model, values) evaluates operators in file order; `values` maps tensor index -> ndarray.
An operator without a reference kernel raises Unsupported (the case is then counted inconclusive, never a violation).
"""
import math

import numpy as np

import tflref
import vmodel

I64 = np.int64


class Unsupported(Exception):
    pass


def vec_srdhm(a, b):
    """SaturatingRoundingDoublingHighMul, a int64 array (int32 range), b scalar or array (int32 range)"""
    a = a.astype(I64)
    ab = a * np.asarray(b, I64)
    nudge = np.where(ab >= 0, 1 << 30, 1 - (1 << 30))
    x = ab + nudge
    q = np.abs(x) >> 31
    q = np.where(x >= 0, q, -q)
    both_min = (a == -(1 << 31)) & (np.asarray(b, I64) == -(1 << 31))
    return np.where(both_min, (1 << 31) - 1, q)


def vec_rdbp(x, e):
    x = x.astype(I64)
    e = np.asarray(e, I64)
    mask = (I64(1) << e) - 1
    rem = x & mask
    thr = (mask >> 1) + (x < 0)
    return (x >> e) + (rem > thr)


def vec_mbqm(x, m, shift):
    """MultiplyByQuantizedMultiplier(x, m, shift) with TFLite (multiplier, shift) convention; m/shift scalars or per-channel arrays (broadcast on last axis)"""
    shift = np.asarray(shift, I64)
    left = np.maximum(shift, 0)
    right = np.maximum(-shift, 0)
    return vec_rdbp(vec_srdhm(x.astype(I64) * (I64(1) << left), m), right)


def vec_mbqm64(x, m, shift):
    """MultiplyByQuantizedMultiplier(int64 x, ...) of the reference (16-bit activations with a 64-bit accumulator): 16-bit reduced multiplier, round half up"""
    m = np.asarray(m, I64)
    shift = np.asarray(shift, I64)
    reduced = np.where(m < 0x7FFF0000, (m + (1 << 15)) >> 16, 0x7FFF)
    total = 15 - shift
    return (x.astype(I64) * reduced + (I64(1) << (total - 1))) >> total


def qparams(t):
    if t["scale"] is None:
        raise Unsupported("tensor %s has no quantisation" % t["name"])
    s = np.asarray(t["scale"], np.float32)
    z = np.asarray(t["zp"] if t["zp"] is not None else [0] * len(s), I64)
    return s, z


def dtype_range(dt):
    return {"int8": (-128, 127), "uint8": (0, 255), "int16": (-32768, 32767), "int32": (-(1 << 31), (1 << 31) - 1)}[dt]


def act_range(act, scale, zp, dt):
    """tflite::CalculateActivationRangeQuantized"""
    lo, hi = dtype_range(dt)

    def q(f):
        return int(zp) + tflref.tflite_round(float(np.float32(f) / np.float32(scale)))

    if act == 1:
        return max(lo, q(0.0)), hi
    if act == 3:
        return max(lo, q(0.0)), min(hi, q(6.0))
    if act == 2:
        return max(lo, q(-1.0)), min(hi, q(1.0))
    if act == 0:
        return lo, hi
    raise Unsupported("fused activation %s" % act)


def conv_multipliers(si, sw, so, uint8_style):
    """per-channel (multiplier, shift): int8 = double(si)*double(sw)/double(so); uint8 = double(float32(si*sw))/double(so)"""
    ms, es = [], []
    for w in np.atleast_1d(sw):
        if uint8_style:
            d = float(np.float32(np.float32(si) * np.float32(w))) / float(np.float32(so))
        else:
            d = float(np.float32(si)) * float(np.float32(w)) / float(np.float32(so))
        m, e = tflref.quantize_multiplier(d)
        ms.append(m)
        es.append(e)
    return np.asarray(ms, I64), np.asarray(es, I64)


def pad_hw(x, pt, pb, pl, pr, value=0):
    return np.pad(x, ((0, 0), (pt, pb), (pl, pr), (0, 0)), constant_values=value)


def same_pad(insz, k, s, d):
    dk = d * (k - 1) + 1
    out = -(-insz // s)
    total = max((out - 1) * s + dk - insz, 0)
    return out, total // 2, total - total // 2


def conv2d(x, w, bias, stride, dilation, padding, depthwise=False):
    """x [N,H,W,C] int64 (zero point removed), w OHWI (or 1HWC' for depthwise) int64 (zero point removed) -> acc int64"""
    n, h, wd, c = x.shape
    sh, sw = stride
    dh, dw = dilation
    if depthwise:
        _, kh, kw, oc = w.shape
    else:
        oc, kh, kw, _ = w.shape
    if padding == 0:
        oh, pt, pb = same_pad(h, kh, sh, dh)
        ow, pl, pr = same_pad(wd, kw, sw, dw)
    else:
        oh = (h - (dh * (kh - 1) + 1)) // sh + 1
        ow = (wd - (dw * (kw - 1) + 1)) // sw + 1
        pt = pb = pl = pr = 0
    xp = pad_hw(x, pt, pb, pl, pr)
    acc = np.zeros((n, oh, ow, oc), I64)
    for ky in range(kh):
        for kx in range(kw):
            patch = xp[:, ky * dh: ky * dh + (oh - 1) * sh + 1: sh, kx * dw: kx * dw + (ow - 1) * sw + 1: sw, :]
            if depthwise:
                mult = oc // c
                acc += np.repeat(patch, mult, axis=3) * w[0, ky, kx, :]
            else:
                acc += patch @ w[:, ky, kx, :].T
    if bias is not None:
        acc += bias.astype(I64)
    return acc


def requant(acc, m, e, zo, lo, hi):
    return np.clip(vec_mbqm(acc, m, e) + int(zo), lo, hi)


class Interp:
    def __init__(self, model, mul_mode=0):
        # mul_mode is a number 0..3: bit 0 selects the MUL multiplier derivation, bit 1 the rounding of 16-bit convolutions with a 32-bit bias; the two
        # ambiguities are independent, a caller that sees `ambiguous` set evaluates the combinations it needs (self.ambiguous_bits says which bits mattered)
        self.ambiguous_bits = 0
        """mul_mode selects which of the two admissible MUL multiplier derivations is used (0: double arithmetic, 1: float32 arithmetic as the C++ kernel evaluates it);
        self.ambiguous is set when the choice changed any value, so that a caller can evaluate both references"""
        self.mul_mode = mul_mode
        self.ambiguous = False
        self.loose = 0  # extra tolerance (in output steps) the evaluated reference kernels ask for
        self.tables = {}  # output tensor index -> the 256-entry table that defines an 8-bit table-driven operator (used to bound how a deviation of its input is amplified)
        self.undef = {}  # tensor index -> boolean mask of elements for which the reference defines no value (SQRT/LOG/RSQRT outside their domain)
        self.model = model
        self.sg = model["subgraphs"][0]
        self.T = self.sg["tensors"]

    def const(self, i):
        return vmodel.tensor_array(self.T[i])

    def get(self, values, i):
        if i in values:
            return values[i]
        c = self.const(i)
        if c is None:
            raise Unsupported("tensor %d (%s) has no value" % (i, self.T[i]["name"]))
        return c

    def run_op(self, o, values):
        """returns list of output arrays, or list of (a, b) alternatives where the reference is ambiguous"""
        T = self.T
        code = o["code"]
        opts = o["options"][1] if o["options"] and o["options"][1] else {}
        ins = [i for i in o["inputs"]]
        ot = T[o["outputs"][0]]
        if code in ("CONV_2D", "DEPTHWISE_CONV_2D", "FULLY_CONNECTED"):
            it, wt = T[ins[0]], T[ins[1]]
            x = self.get(values, ins[0]).astype(I64)
            w = self.get(values, ins[1]).astype(I64)
            b = self.get(values, ins[2]) if len(ins) > 2 and ins[2] >= 0 else None
            si, zi = qparams(it)
            sw, zw = qparams(wt)
            so, zo = qparams(ot)
            dt = it["dtype"]
            wide_acc = dt == "int16" and b is not None and T[ins[2]]["dtype"] == "int64"
            x = x - int(zi[0])
            if code == "FULLY_CONNECTED":
                x = x.reshape(-1, w.shape[1])[:, None, None, :]
                w4 = (w - (zw[0] if len(zw) == 1 else 0))[:, None, None, :]
                acc = conv2d(x, w4, b, (1, 1), (1, 1), 1)
                acc = acc.reshape(acc.shape[0], -1)
                m, e = conv_multipliers(si[0], sw, so[0], True)
            else:
                dw = code == "DEPTHWISE_CONV_2D"
                if len(zw) == 1:
                    wz = w - int(zw[0])
                else:
                    wz = w - (zw.reshape((1, 1, 1, -1)) if dw else zw.reshape((-1, 1, 1, 1)))
                acc = conv2d(x, wz, b, (opts.get("StrideH", 1), opts.get("StrideW", 1)), (opts.get("DilationHFactor", 1), opts.get("DilationWFactor", 1)), opts.get("Padding", 0), dw)
                m, e = conv_multipliers(si[0], sw, so[0], dt == "uint8")
            lo, hi = act_range(opts.get("FusedActivationFunction", 0), so[0], zo[0], ot["dtype"])
            if len(m) == 1:
                m, e = m[0], e[0]
            if wide_acc:
                return [np.clip(vec_mbqm64(acc, m, e) + int(zo[0]), lo, hi)]
            out = requant(acc, m, e, zo[0], lo, hi)
            if dt == "int16":
                # 16-bit activations with a 32-bit bias: the kernel versions disagree on the rounding of the full-precision multiplier (doubling high multiply +
                # rounding shift, or one round-half-up of the 64-bit product); both are admissible references
                total = 31 - np.asarray(e, I64)
                alt = np.clip(((acc.astype(I64) * np.asarray(m, I64) + (I64(1) << (total - 1))) >> total) + int(zo[0]), lo, hi)
                if code == "FULLY_CONNECTED":
                    return [out]  # the accelerator path of a fully connected layer keeps the doubling-high-multiply rounding of the 32-bit accumulator kernel
                if not np.array_equal(alt, out):
                    self.ambiguous = True
                    self.ambiguous_bits |= 2
                return [alt if (self.mul_mode & 2) else out]
            return [out]
        if code == "TRANSPOSE_CONV":
            # inputs: output_shape, weights OHWI, input, [bias]
            it, wt = T[ins[2]], T[ins[1]]
            if it["dtype"] not in ("int8", "uint8"):
                raise Unsupported("TRANSPOSE_CONV on %s" % it["dtype"])
            x = self.get(values, ins[2]).astype(I64)
            w = self.get(values, ins[1]).astype(I64)
            b = self.get(values, ins[3]) if len(ins) > 3 and ins[3] >= 0 else None
            si, zi = qparams(it)
            sw, zw = qparams(wt)
            so, zo = qparams(ot)
            x = x - int(zi[0])
            w = w - (int(zw[0]) if len(zw) == 1 else zw.reshape((-1, 1, 1, 1)))
            n, h, wd, c = x.shape
            oc, kh, kw, _ = w.shape
            sh, swd = opts.get("StrideH", 1), opts.get("StrideW", 1)
            _, oh, ow, _ = ot["shape"]
            if opts.get("Padding", 0) == 0:  # SAME: tflite ComputePaddingHeightWidth on the *output* size
                pt = max((h - 1) * sh + kh - oh, 0) // 2
                pl = max((wd - 1) * swd + kw - ow, 0) // 2
            else:
                pt = pl = 0
            acc = np.zeros((n, oh, ow, oc), I64)
            for ky in range(kh):
                for kx in range(kw):
                    contrib = x @ w[:, ky, kx, :].T  # [n, h, wd, oc]
                    for y in range(h):
                        oy = y * sh + ky - pt
                        if oy < 0 or oy >= oh:
                            continue
                        ox = np.arange(wd) * swd + kx - pl
                        ok = (ox >= 0) & (ox < ow)
                        acc[:, oy, ox[ok], :] += contrib[:, y, ok, :]
            if b is not None:
                acc += b.astype(I64)
            m, e = conv_multipliers(si[0], sw, so[0], it["dtype"] == "uint8")
            lo, hi = dtype_range(ot["dtype"])
            if len(m) == 1:
                m, e = m[0], e[0]
            return [requant(acc, m, e, zo[0], lo, hi)]
        if code in ("MAX_POOL_2D", "AVERAGE_POOL_2D"):
            it = T[ins[0]]
            x = self.get(values, ins[0]).astype(I64)
            n, h, wd, c = x.shape
            kh, kw, sh, sw = opts["FilterHeight"], opts["FilterWidth"], opts["StrideH"], opts["StrideW"]
            if opts["Padding"] == 0:
                oh, pt, pb = same_pad(h, kh, sh, 1)
                ow, pl, pr = same_pad(wd, kw, sw, 1)
            else:
                oh, ow = (h - kh) // sh + 1, (wd - kw) // sw + 1
                pt = pb = pl = pr = 0
            so, zo = qparams(ot)
            lo, hi = act_range(opts.get("FusedActivationFunction", 0), so[0], zo[0], ot["dtype"])
            if code == "MAX_POOL_2D":
                xp = pad_hw(x, pt, pb, pl, pr, value=-(1 << 40))
                out = np.full((n, oh, ow, c), -(1 << 40), I64)
                for ky in range(kh):
                    for kx in range(kw):
                        out = np.maximum(out, xp[:, ky: ky + (oh - 1) * sh + 1: sh, kx: kx + (ow - 1) * sw + 1: sw, :])
                return [np.clip(out, lo, hi)]
            xp = pad_hw(x, pt, pb, pl, pr, value=0)
            ones = pad_hw(np.ones_like(x), pt, pb, pl, pr, value=0)
            acc = np.zeros((n, oh, ow, c), I64)
            cnt = np.zeros((n, oh, ow, c), I64)
            for ky in range(kh):
                for kx in range(kw):
                    acc += xp[:, ky: ky + (oh - 1) * sh + 1: sh, kx: kx + (ow - 1) * sw + 1: sw, :]
                    cnt += ones[:, ky: ky + (oh - 1) * sh + 1: sh, kx: kx + (ow - 1) * sw + 1: sw, :]
            out = np.where(acc > 0, (acc + cnt // 2) // cnt, -((-(acc - cnt // 2)) // cnt))
            return [np.clip(out, lo, hi)]
        if code in ("ADD", "SUB"):
            a, b = self.get(values, ins[0]).astype(I64), self.get(values, ins[1]).astype(I64)
            ta, tb = T[ins[0]], T[ins[1]]
            if ta["dtype"] not in ("int8", "uint8", "int16") or ot["dtype"] != ta["dtype"] or tb["dtype"] != ta["dtype"]:
                raise Unsupported("%s on %s" % (code, ta["dtype"]))
            s1, z1 = qparams(ta)
            s2, z2 = qparams(tb)
            so, zo = qparams(ot)
            bits = 16 if ta["dtype"] == "int16" else 8
            if bits == 16:
                def pot(v):
                    m, _ = math.frexp(float(v))
                    return m == 0.5
                if opts.get("PotScaleInt16", True) and pot(s1[0]) and pot(s2[0]) and pot(so[0]):
                    raise Unsupported("int16 %s on the power-of-two scale path" % code)
            left, (m1, e1), (m2, e2), (mo, eo) = tflref.add_sub_params(s1[0], s2[0], so[0], bits)
            v1 = vec_mbqm((a - int(z1[0])) * (1 << left), m1, e1)
            v2 = vec_mbqm((b - int(z2[0])) * (1 << left), m2, e2)
            raw = v1 + v2 if code == "ADD" else v1 - v2
            lo, hi = act_range(opts.get("FusedActivationFunction", 0), so[0], zo[0], ot["dtype"])
            return [np.clip(vec_mbqm(raw, mo, eo) + int(zo[0]), lo, hi)]
        if code == "MUL":
            a, b = self.get(values, ins[0]).astype(I64), self.get(values, ins[1]).astype(I64)
            ta, tb = T[ins[0]], T[ins[1]]
            if ta["dtype"] not in ("int8", "uint8", "int16") or ot["dtype"] != ta["dtype"]:
                raise Unsupported("MUL on %s -> %s" % (ta["dtype"], ot["dtype"]))
            s1, z1 = qparams(ta)
            s2, z2 = qparams(tb)
            so, zo = qparams(ot)
            acc = (a - int(z1[0])) * (b - int(z2[0]))
            lo, hi = act_range(opts.get("FusedActivationFunction", 0), so[0], zo[0], ot["dtype"])
            outs = []
            for d in (float(s1[0]) * float(s2[0]) / float(so[0]), float(np.float32(np.float32(s1[0] * s2[0]) / so[0]))):
                m, e = tflref.quantize_multiplier(d)
                outs.append(np.clip(vec_mbqm(acc, m, e) + int(zo[0]), lo, hi))
            if not np.array_equal(outs[0], outs[1]):
                self.ambiguous = True
                self.ambiguous_bits |= 1
            return [outs[self.mul_mode & 1]]
        if code in ("MAXIMUM", "MINIMUM"):
            a, b = self.get(values, ins[0]).astype(I64), self.get(values, ins[1]).astype(I64)
            if (T[ins[0]]["scale"], T[ins[0]]["zp"]) != (T[ins[1]]["scale"], T[ins[1]]["zp"]) or (T[ins[0]]["scale"], T[ins[0]]["zp"]) != (ot["scale"], ot["zp"]):
                raise Unsupported("%s with differing quantisation" % code)
            return [np.maximum(a, b) if code == "MAXIMUM" else np.minimum(a, b)]
        if code in ("RELU", "RELU6", "RELU_N1_TO_1"):
            x = self.get(values, ins[0]).astype(I64)
            it = T[ins[0]]
            if (it["scale"], it["zp"]) != (ot["scale"], ot["zp"]):
                raise Unsupported("%s with requantisation" % code)
            so, zo = qparams(ot)
            lo, hi = act_range({"RELU": 1, "RELU6": 3, "RELU_N1_TO_1": 2}[code], so[0], zo[0], ot["dtype"])
            return [np.clip(x, lo, hi)]
        if code == "QUANTIZE":
            it = T[ins[0]]
            if it["dtype"].startswith("float") or ot["dtype"].startswith("float"):
                raise Unsupported("float QUANTIZE")
            x = self.get(values, ins[0]).astype(I64)
            si, zi = qparams(it)
            so, zo = qparams(ot)
            m, e = tflref.quantize_multiplier(float(si[0]) / float(so[0]))
            lo, hi = dtype_range(ot["dtype"])
            if it["dtype"] not in ("int8", "uint8", "int16") or ot["dtype"] not in ("int8", "uint8", "int16"):
                raise Unsupported("requantise %s -> %s" % (it["dtype"], ot["dtype"]))
            return [np.clip(vec_mbqm(x - int(zi[0]), m, e) + int(zo[0]), lo, hi)]
        if code in ("RESHAPE", "SQUEEZE", "EXPAND_DIMS"):
            return [self.get(values, ins[0]).reshape(ot["shape"])]
        if code == "CONCATENATION":
            arrs = [self.get(values, i) for i in ins]
            for i in ins:
                if (T[i]["scale"], T[i]["zp"]) != (ot["scale"], ot["zp"]):
                    raise Unsupported("CONCATENATION with requantisation")
            return [np.concatenate(arrs, axis=opts.get("Axis", 0))]
        if code == "PAD":
            x = self.get(values, ins[0])
            p = self.get(values, ins[1]).reshape(-1, 2)
            _, z = qparams(ot)
            return [np.pad(x, [(int(a), int(b)) for a, b in p], constant_values=int(z[0]))]
        if code == "SLICE":
            x = self.get(values, ins[0])
            b = self.get(values, ins[1]).flatten()
            s = self.get(values, ins[2]).flatten()
            return [x[tuple(slice(int(bb), int(bb) + int(ss)) for bb, ss in zip(b, s))]]
        if code == "STRIDED_SLICE":
            x = self.get(values, ins[0])
            b, e, st = (self.get(values, ins[k]).flatten() for k in (1, 2, 3))
            if opts.get("EllipsisMask") or opts.get("Offset") or any(int(v) != 1 for v in st):
                raise Unsupported("STRIDED_SLICE with ellipsis / offset / strides")
            bm, em, nam, sam = (int(opts.get(k) or 0) for k in ("BeginMask", "EndMask", "NewAxisMask", "ShrinkAxisMask"))
            # strided_slice_logic.h (positive strides): negative indices count from the end, start is clamped to [0, dim-1], stop to [0, dim]; masked entries take the
            # full range; a shrunk axis takes the single element at start; a new axis consumes a spec entry but no input dimension
            idx = []
            dim = 0
            for i in range(len(b)):
                if (nam >> i) & 1:
                    idx.append(np.newaxis)
                    continue
                if dim >= x.ndim:
                    raise Unsupported("STRIDED_SLICE spec longer than the input rank")
                n = x.shape[dim]
                lo_, hi_ = int(b[i]), int(e[i])
                lo_ = lo_ + n if lo_ < 0 else lo_
                hi_ = hi_ + n if hi_ < 0 else hi_
                if (sam >> i) & 1:
                    idx.append(int(np.clip(lo_, 0, n - 1)))
                else:
                    lo_ = 0 if (bm >> i) & 1 else int(np.clip(lo_, 0, n - 1))
                    hi_ = n if (em >> i) & 1 else int(np.clip(hi_, 0, n))
                    idx.append(slice(lo_, hi_))
                dim += 1
            r = x[tuple(idx)]
            if list(r.shape) != list(ot["shape"]):
                raise Unsupported("STRIDED_SLICE output shape %s differs from the declared %s" % (list(r.shape), ot["shape"]))
            return [r]
        if code == "ARG_MAX":
            x = self.get(values, ins[0])
            axis = int(self.get(values, ins[1]).flatten()[0]) % x.ndim
            return [np.argmax(x, axis=axis).astype(I64).reshape(ot["shape"])]  # first index of the maximum, as the reference kernel
        if code == "TILE":
            return [np.tile(self.get(values, ins[0]), [int(v) for v in self.get(values, ins[1]).flatten()])]
        if code == "GATHER":
            return [np.take(self.get(values, ins[0]), self.get(values, ins[1]).astype(np.int64), axis=opts.get("Axis", 0))]
        if code == "SPLIT_V":
            x = self.get(values, ins[0])
            sizes = [int(v) for v in self.get(values, ins[1]).flatten()]
            axis = int(self.get(values, ins[2]).flatten()[0]) % x.ndim
            if -1 in sizes:
                sizes[sizes.index(-1)] = x.shape[axis] - (sum(sizes) + 1)
            return list(np.split(x, np.cumsum(sizes)[:-1], axis=axis))
        if code == "TRANSPOSE":
            return [np.transpose(self.get(values, ins[0]), [int(v) for v in self.get(values, ins[1]).flatten()])]
        if code == "PACK":
            for i in ins:
                if (T[i]["scale"], T[i]["zp"]) != (ot["scale"], ot["zp"]):
                    raise Unsupported("PACK with requantisation")
            return [np.stack([self.get(values, i) for i in ins], axis=opts.get("Axis", 0))]
        if code == "UNPACK":
            x = self.get(values, ins[0])
            axis = opts.get("Axis", 0) % x.ndim
            return [np.take(x, k, axis=axis) for k in range(x.shape[axis])]
        if code == "SPLIT":
            axis = int(self.get(values, ins[0]).flatten()[0])
            x = self.get(values, ins[1])
            return list(np.split(x, opts["NumSplits"], axis=axis))
        if code == "LEAKY_RELU" and T[ins[0]]["dtype"] == "int16" and ot["dtype"] == "int16":
            # reference_ops::QuantizeLeakyRelu: identity and alpha multipliers
            it = T[ins[0]]
            x = self.get(values, ins[0]).astype(I64)
            si, zi = qparams(it)
            so, zo = qparams(ot)
            lo, hi = dtype_range("int16")
            alpha = float(np.float32(opts.get("Alpha", 0.0)))
            m1, e1 = tflref.quantize_multiplier(float(si[0]) / float(so[0]))
            m2, e2 = tflref.quantize_multiplier(float(si[0]) * alpha / float(so[0])) if alpha != 0 else (0, 0)
            xv = x - int(zi[0])
            if alpha < 0:
                raise Unsupported("LEAKY_RELU int16 with negative alpha")
            return [np.clip(np.where(xv >= 0, vec_mbqm(xv, m1, e1), vec_mbqm(xv, m2, e2)) + int(zo[0]), lo, hi)]
        if code in ("LOGISTIC", "TANH", "HARD_SWISH", "LEAKY_RELU"):
            # 8-bit activations are table driven in the reference; the table is what defines the function
            it = T[ins[0]]
            if it["dtype"] not in ("int8", "uint8") or ot["dtype"] != it["dtype"]:
                raise Unsupported("%s on %s" % (code, it["dtype"]))
            x = self.get(values, ins[0]).astype(I64)
            si, zi = qparams(it)
            so, zo = qparams(ot)
            lo, hi = dtype_range(it["dtype"])
            if code in ("LOGISTIC", "TANH"):
                # tflite PopulateLookupTable: float32 arithmetic, std::round
                f32 = np.float32
                v = np.arange(lo, hi + 1, dtype=np.int64)
                deq = f32(si[0]) * (v - int(zi[0])).astype(f32)
                with np.errstate(over="ignore"):
                    tr = np.tanh(deq.astype(f32)) if code == "TANH" else (f32(1) / (f32(1) + np.exp(-deq.astype(f32)))).astype(f32)
                resc = tr.astype(f32) * (f32(1) / f32(so[0]))
                r = np.where(resc >= 0, np.floor(resc + f32(0.5)), np.ceil(resc - f32(0.5))).astype(np.int64) + int(zo[0])
                table = np.clip(r, lo, hi)
            else:
                from props import c19

                if code == "HARD_SWISH":
                    table = np.asarray(c19.ref_hardswish_table(it["dtype"], si[0], int(zi[0]), so[0], int(zo[0])), I64)
                else:
                    tabs = c19.ref_lrelu_tables(it["dtype"], si[0], int(zi[0]), so[0], int(zo[0]), opts.get("Alpha", 0.0))
                    table = np.asarray(tabs[0], I64)
            self.tables[o["outputs"][0]] = np.asarray(table, I64)
            return [table[x - lo]]
        if code == "SQUARED_DIFFERENCE":
            # squared_difference.cc (int8): both operands shifted left by 7, scaled to twice the larger input scale, the squared difference scaled to the output
            t1, t2 = T[ins[0]], T[ins[1]]
            if t1["dtype"] != "int8" or t2["dtype"] != "int8" or ot["dtype"] != "int8":
                raise Unsupported("SQUARED_DIFFERENCE on %s" % t1["dtype"])
            a = self.get(values, ins[0]).astype(I64)
            b = self.get(values, ins[1]).astype(I64)
            s1, z1 = qparams(t1)
            s2, z2 = qparams(t2)
            so, zo = qparams(ot)
            twice = 2.0 * max(float(s1[0]), float(s2[0]))
            m1, e1 = tflref.quantize_multiplier(float(s1[0]) / twice)
            m2, e2 = tflref.quantize_multiplier(float(s2[0]) / twice)
            mo, eo = tflref.quantize_multiplier(twice * twice / ((1 << 14) * float(so[0])))
            if e1 > 0 or e2 > 0 or eo > 0:
                raise Unsupported("SQUARED_DIFFERENCE with a multiplier above one")
            va = vec_mbqm((a - int(z1[0])) * 128, m1, e1)
            vb = vec_mbqm((b - int(z2[0])) * 128, m2, e2)
            d = va - vb
            lo, hi = dtype_range("int8")
            return [np.clip(vec_mbqm(d * d, mo, eo) + int(zo[0]), lo, hi)]
        if code == "ABS":
            it = T[ins[0]]
            if it["dtype"] not in ("int8", "uint8", "int16") or ot["dtype"] != it["dtype"]:
                raise Unsupported("ABS on %s" % it["dtype"])
            x = self.get(values, ins[0]).astype(I64)
            si, zi = qparams(it)
            so, zo = qparams(ot)
            lo, hi = dtype_range(ot["dtype"])
            m, e = tflref.quantize_multiplier(float(si[0]) / float(so[0]))
            return [np.clip(vec_mbqm(np.abs(x - int(zi[0])), m, e) + int(zo[0]), lo, hi)]
        if code == "PRELU":
            it, at = T[ins[0]], T[ins[1]]
            if it["dtype"] not in ("int8", "uint8") or ot["dtype"] != it["dtype"] or at["dtype"] != it["dtype"]:
                raise Unsupported("PRELU on %s" % it["dtype"])
            x = self.get(values, ins[0]).astype(I64)
            a = self.get(values, ins[1]).astype(I64)
            si, zi = qparams(it)
            sa, za = qparams(at)
            so, zo = qparams(ot)
            lo, hi = dtype_range(ot["dtype"])
            m1, e1 = tflref.quantize_multiplier(float(si[0]) / float(so[0]))
            m2, e2 = tflref.quantize_multiplier(float(si[0]) * float(sa[0]) / float(so[0]))
            xv = x - int(zi[0])
            av = np.broadcast_to(a - int(za[0]), x.shape)
            pos = vec_mbqm(xv, m1, e1)
            neg = vec_mbqm(xv * av, m2, e2)
            return [np.clip(np.where(xv >= 0, pos, neg) + int(zo[0]), lo, hi)]
        if code == "SOFTMAX":
            # reference_ops::Softmax for 8-bit types (gemmlowp fixed point, over the last axis); the 16-bit kernel (table interpolation) has no reference here
            it = T[ins[0]]
            if it["dtype"] not in ("int8", "uint8") or ot["dtype"] != it["dtype"]:
                raise Unsupported("SOFTMAX on %s" % it["dtype"])
            x = self.get(values, ins[0]).astype(I64)
            si, zi = qparams(it)
            lo, hi = dtype_range(ot["dtype"])
            beta = float(np.float32(opts.get("Beta", 1.0)))
            rows = x.reshape(-1, x.shape[-1])
            cache = {}
            try:
                out = [tflref.softmax_row_q8([int(v) for v in r], beta, float(si[0]), lo, hi, cache) for r in rows]
            except OverflowError as e:
                raise Unsupported("SOFTMAX: %s" % e)
            return [np.asarray(out, I64).reshape(x.shape)]
        if code in ("EXP", "LOG", "SQRT", "GELU") and T[ins[0]]["dtype"] == "int16" and ot["dtype"] == "int16":
            # 16-bit: the reference populates a 513-entry table (LUTPopulate<int16>: sample minus half the mid-point interpolation error) and interpolates linearly over the low
            # seven bits (LUTLookup); evaluated in double here (float in the kernels: one step of tolerance).  Inputs whose interval touches the outside of the function's
            # domain are undefined for the comparison.
            it = T[ins[0]]
            x = self.get(values, ins[0]).astype(I64)
            si, zi = qparams(it)
            so, zo = qparams(ot)
            zi, zo = int(zi[0]), int(zo[0])
            s_in, s_out = float(si[0]), float(so[0])
            if code == "GELU" and opts.get("Approximate", False):
                fn = lambda r: 0.5 * r * (1 + math.tanh(math.sqrt(2 / math.pi) * (r + 0.044715 * r ** 3)))
            elif code == "GELU":
                fn = lambda r: 0.5 * r * (1 + math.erf(r / math.sqrt(2)))
            elif code == "EXP":
                fn = lambda r: math.exp(min(r, 700.0))
            elif code == "LOG":
                fn = lambda r: math.log(r) if r > 0 else -1e30
            else:
                fn = lambda r: math.sqrt(r) if r > 0 else 0.0
            imin, imax = s_in * (-32768 - zi), s_in * (32767 - zi)
            omin, omax = s_out * (-32768 - zo), s_out * (32767 - zo)
            step = (imax - imin) / 512
            inv = 65536.0 / (omax - omin)
            rnd = tflref.tflite_round
            lut = []
            for i in range(512):
                val, mid, nxt = fn(imin + i * step), fn(imin + i * step + step / 2), fn(imin + (i + 1) * step)
                sample = rnd(min(max(val * inv, -1e12), 1e12))
                interp = rnd((min(max(nxt * inv, -1e12), 1e12) + sample) / 2)
                bias = rnd((interp - rnd(min(max(mid * inv, -1e12), 1e12))) / 2)
                lut.append(min(max(sample - bias, -32768), 32767))
            lut.append(min(max(rnd(min(max(fn(imax) * inv, -1e12), 1e12)), -32768), 32767))
            lut = np.asarray(lut, I64)
            idx = 256 + (x >> 7)
            off = x & 0x7F
            # LUTLookup keeps the slope in an int16_t: a step of more than 32767 between neighbouring entries (coarse tables of steep functions) wraps, and so does the result
            slope = ((lut[idx + 1] - lut[idx] + 32768) & 0xFFFF) - 32768
            r = lut[idx] + ((slope * off + 64) >> 7)
            r = ((r + 32768) & 0xFFFF) - 32768
            if code in ("LOG", "SQRT"):
                # entry i covers real inputs from imin + i*step: every element whose interval starts at or below zero is outside the domain (or interpolates from it)
                real_lo = imin + idx * step
                m = real_lo <= (0.0 if code == "LOG" else -1e-30)
                if code == "SQRT":
                    m = real_lo < 0
                if m.any():
                    self.undef[o["outputs"][0]] = m
            return [np.clip(r, -32768, 32767)]
        if code in ("EXP", "LOG", "SQRT", "GELU", "RSQRT"):
            # 8-bit: the reference populates a 256-entry table round(f(dequantised)/output scale) + zero point (float32 there, double here: one step of tolerance);
            # RSQRT is fixed-point in the reference (value 0 -> type maximum, negative values are an error), compared against the real function with the same tolerance
            it = T[ins[0]]
            if it["dtype"] not in ("int8", "uint8") or ot["dtype"] != it["dtype"]:
                raise Unsupported("%s on %s" % (code, it["dtype"]))
            x = self.get(values, ins[0]).astype(I64)
            si, zi = qparams(it)
            so, zo = qparams(ot)
            lo, hi = dtype_range(it["dtype"])
            v = np.arange(lo, hi + 1, dtype=np.int64)
            real = float(si[0]) * (v - int(zi[0])).astype(np.float64)
            undefined = np.zeros(v.shape, bool)
            with np.errstate(all="ignore"):
                if code == "EXP":
                    f = np.exp(np.minimum(real, 700.0))
                elif code == "LOG":
                    undefined = real < 0
                    f = np.where(real > 0, np.log(np.where(real > 0, real, 1.0)), -np.inf)
                elif code == "SQRT":
                    undefined = real < 0
                    f = np.sqrt(np.maximum(real, 0.0))
                elif code == "RSQRT":
                    undefined = real < 0
                    f = np.where(real > 0, 1.0 / np.sqrt(np.where(real > 0, real, 1.0)), np.inf)
                else:
                    if opts.get("Approximate", False):
                        f = 0.5 * real * (1 + np.tanh(math.sqrt(2 / math.pi) * (real + 0.044715 * real ** 3)))
                    else:
                        f = np.array([0.5 * r * (1 + math.erf(r / math.sqrt(2))) for r in real])
                resc = np.clip(f / float(so[0]), -1e9, 1e9)
            r = np.where(resc >= 0, np.floor(resc + 0.5), np.ceil(resc - 0.5)).astype(np.int64) + int(zo[0])
            table = np.clip(r, lo, hi)
            if undefined.any():
                m = undefined[x - lo]
                if m.any():
                    self.undef[o["outputs"][0]] = m
            if not undefined.any():
                self.tables[o["outputs"][0]] = np.asarray(table, I64)
            return [table[x - lo]]
        if code == "MEAN":
            it = T[ins[0]]
            if it["dtype"] not in ("int8", "uint8"):
                raise Unsupported("MEAN on %s" % it["dtype"])
            x = self.get(values, ins[0]).astype(I64)
            axes = tuple(int(a) % x.ndim for a in self.get(values, ins[1]).flatten())
            si, zi = qparams(it)
            so, zo = qparams(ot)
            lo, hi = dtype_range(ot["dtype"])
            n = int(np.prod([x.shape[a] for a in axes]))
            acc = (x - int(zi[0])).sum(axis=axes, keepdims=bool(opts.get("KeepDims")))
            # tflite reduce.cc (quantised mean): multiplier of input/output scale, divided by the element count after a left shift that keeps precision
            mult, e = tflref.quantize_multiplier(float(np.float32(si[0]) / np.float32(so[0])))
            sh = min(n.bit_length() - 1, 32, 31 + e)
            mult = (mult << sh) // n
            q = vec_mbqm(acc, mult, e - sh) + int(zo[0])
            return [np.clip(q, lo, hi).reshape(ot["shape"])]
        if code == "RESIZE_NEAREST_NEIGHBOR":
            x = self.get(values, ins[0])
            n, h, w, c = x.shape
            oh, ow = [int(v) for v in self.get(values, ins[1]).flatten()]
            align, half = bool(opts.get("AlignCorners")), bool(opts.get("HalfPixelCenters"))

            def idx(o, i):
                # tflite reference ResizeNearestNeighbor (float32 scale, std::round / floor)
                f32 = np.float32
                scale = f32(i - 1) / f32(o - 1) if (align and o > 1) else f32(i) / f32(o)
                off = f32(0.5) if half else f32(0)
                pos = (np.arange(o).astype(f32) + off) * scale
                r = np.floor(pos + f32(0.5)) if align else np.floor(pos)
                return np.minimum(r.astype(np.int64), i - 1)

            return [x[:, idx(oh, h)][:, :, idx(ow, w)]]
        if code == "RESIZE_BILINEAR":
            it = T[ins[0]]
            if it["dtype"] not in ("int8", "uint8", "int16"):
                raise Unsupported("RESIZE_BILINEAR on %s" % it["dtype"])
            x = self.get(values, ins[0]).astype(I64)
            n, h, w, c = x.shape
            oh, ow = [int(v) for v in self.get(values, ins[1]).flatten()]
            align, half = bool(opts.get("AlignCorners")), bool(opts.get("HalfPixelCenters"))

            def interp(o, i):
                # reference_ops::ResizeBilinearInteger / ComputeInterpolationValuesInteger (10 fractional bits, C++ truncating division)
                scale = ((1 << 10) * i + o // 2) // o
                if align and o > 1:
                    scale = ((1 << 10) * (i - 1) + (o - 1) // 2) // (o - 1)
                v = np.arange(o, dtype=I64)
                sv = v * scale + (scale // 2 - (1 << 9) if half else 0)
                trunc = np.where(sv >= 0, sv >> 10, -((-sv) >> 10))
                lo = np.minimum(np.maximum(trunc, 0), i - 1)
                t2 = sv + (1 << 10) - 1
                up = np.minimum(np.where(t2 >= 0, t2 >> 10, -((-t2) >> 10)), i - 1)
                return sv, lo, up

            sy, y0, y1 = interp(oh, h)
            sx, x0, x1 = interp(ow, w)
            fy = (sy - (y0 << 10))[None, :, None, None]
            fx = (sx - (x0 << 10))[None, None, :, None]
            g = lambda yy, xx: x[:, yy][:, :, xx]
            out20 = g(y0, x0) * ((1 << 10) - fy) * ((1 << 10) - fx) + g(y1, x0) * fy * ((1 << 10) - fx) + g(y0, x1) * ((1 << 10) - fy) * fx + g(y1, x1) * fy * fx
            rnd = np.where(out20 > 0, 1 << 19, -(1 << 19))
            t3 = out20 + rnd
            return [np.where(t3 >= 0, t3 >> 20, -((-t3) >> 20))]
        raise Unsupported("no reference kernel for %s" % (o["custom_code"] or code))

    def run(self, inputs):
        """inputs: dict tensor index -> ndarray.  returns values: dict tensor index -> ndarray"""
        values = dict(inputs)
        for o in self.sg["ops"]:
            masked = [i for i in o["inputs"] if i in self.undef]
            outs = self.run_op(o, values)
            if masked:
                # only element-wise clamps and re-shapes may consume a tensor with undefined elements: the mask travels with them
                if o["code"] in ("RELU", "RELU6", "RELU_N1_TO_1", "RESHAPE", "SQUEEZE", "EXPAND_DIMS") and len(o["outputs"]) == 1:
                    self.undef[o["outputs"][0]] = self.undef[masked[0]].reshape(np.asarray(outs[0]).shape)
                else:
                    raise Unsupported("%s consumes a tensor with elements outside the producer's domain" % o["code"])
            for t, v in zip(o["outputs"], outs):
                want = self.T[t]["shape"]
                if isinstance(v, np.ndarray) and want is not None and list(v.shape) != list(want) and v.size == int(np.prod(want)):
                    v = v.reshape(want)  # kernels that work on a flattened view (FULLY_CONNECTED with keep_num_dims)
                values[t] = v
        return values

"""byte-accurate access footprints of decoded NPU operations (DESIGN.md §2.4, H2, H9) as sorted interval lists.

A footprint is a dict region -> list of disjoint, sorted (start, end) byte intervals (end exclusive).
All geometry is taken from the *decoded registers* (csdec.fields); the IFM extent is derived the way the hardware
derives it: (ofm-1)*stride + dilated_kernel - pads, halved (rounded up) for 2x2 up-scaling.
"""
import hw
import csdec


def merge(iv):
    iv = sorted(i for i in iv if i[1] > i[0])
    out = []
    for s, e in iv:
        if out and s <= out[-1][1]:
            if e > out[-1][1]:
                out[-1][1] = e
        else:
            out.append([s, e])
    return [(s, e) for s, e in out]


def intersects(a, b):
    """a, b: sorted disjoint interval lists"""
    i = j = 0
    while i < len(a) and j < len(b):
        if max(a[i][0], b[j][0]) < min(a[i][1], b[j][1]):
            return (max(a[i][0], b[j][0]), min(a[i][1], b[j][1]))
        if a[i][1] <= b[j][1]:
            i += 1
        else:
            j += 1
    return None


def fp_intersects(fa, fb):
    for r in fa.keys() & fb.keys():
        x = intersects(fa[r], fb[r])
        if x:
            return (r,) + x
    return None


def fp_union(*fps):
    out = {}
    for fp in fps:
        for r, iv in fp.items():
            out.setdefault(r, []).extend(iv)
    return {r: merge(iv) for r, iv in out.items()}


def fm_box(fm, y0, y1, x0, x1, c0, c1):
    """byte intervals of the box rows y0..y1-1, cols x0..x1-1, channels c0..c1-1 of a decoded feature map.
    Element-exact for both layouts (a partial 16-channel brick contributes only the bytes of existing channels)."""
    esz = fm["bits"] // 8
    h0, h1, w0 = fm["height0"], fm["height1"], fm["width0"]
    iv = []
    if y1 <= y0 or x1 <= x0 or c1 <= c0:
        return iv
    # split columns at width0, rows at height0 (left tiles) / height1 (right tiles)
    for (xa, xb, hsplit, t_top, t_bot) in ((x0, min(x1, w0), h0, 0, 2), (max(x0, w0), x1, h1, 1, 3)):
        if xb <= xa:
            continue
        for (ya, yb, tile, yoff) in ((y0, min(y1, hsplit), t_top, 0), (max(y0, hsplit), y1, t_bot, hsplit)):
            if yb <= ya:
                continue
            base = fm["base"][tile]
            xoff = w0 if tile in (1, 3) else 0
            for y in range(ya, yb):
                row = base + (y - yoff) * fm["stride_y"]
                if fm["nhcwb16"]:
                    for cb in range(c0 // 16, (c1 - 1) // 16 + 1):
                        lo, hi = max(c0, cb * 16) - cb * 16, min(c1, cb * 16 + 16) - cb * 16
                        s = row + cb * fm["stride_c"] + (xa - xoff) * 16 * esz
                        if hi - lo == 16:
                            iv.append((s, s + (xb - xa) * 16 * esz))
                        else:  # partial brick: only the bytes of the channels that exist (element-exact, never more than the hardware touches)
                            for x in range(xb - xa):
                                iv.append((s + x * 16 * esz + lo * esz, s + x * 16 * esz + hi * esz))
                else:
                    sx = fm["stride_x"]
                    if sx == (c1 - c0) * esz and c0 == 0:
                        s = row + (xa - xoff) * sx
                        iv.append((s, s + (xb - xa) * sx))
                    else:
                        for x in range(xa, xb):
                            s = row + (x - xoff) * sx + c0 * esz
                            iv.append((s, s + (c1 - c0) * esz))
    return iv


def ifm_extent(f):
    """(height, width) of the IFM the hardware reads for a decoded kernel operation"""
    o = f["ofm"]
    if f["kind"] == "elementwise":
        return o["height"], o["width"]
    k, p = f["kernel"], f["pad"]
    ih = (o["height"] - 1) * k["stride_y"] + k["dilated_h"] - p["top"] - p["bottom"]
    iw = (o["width"] - 1) * k["stride_x"] + k["dilated_w"] - p["left"] - p["right"]
    if f["upscale"]:
        ih, iw = -(-ih // 2), -(-iw // 2)
    return max(ih, 0), max(iw, 0)


def lut_bytes(f, accel):
    """SHRAM bytes of the lookup table an operation uses: the table is indexed by the operation's result, so its geometry follows the OFM precision:
    8-bit OFM -> 256 one-byte entries, 32-bit OFM -> 256 four-byte entries (softmax exp), 16-bit OFM -> 512 four-byte (base, slope) entries;
    the table index counts 256-byte slots from the start of the LUT area"""
    a = f["activation"]
    if a["lut_index"] is None:
        return None
    base = hw.lut_start_bank(accel, True) * hw.SHRAM_BANK_BYTES
    size = {8: 256, 32: 1024, 16: 2048}[f["ofm"]["bits"]]
    start = base + a["lut_index"] * 256
    return (start, start + size)


def op_footprints(f, accel):
    """-> (reads, writes) for a decoded operation (csdec.fields)"""
    if f["kind"] == "dma":
        sr = f["src_region"]
        dr = csdec.SHRAM_REGION if f["dst_region"] & 0x100 else f["dst_region"]
        return {sr: [(f["src"], f["src"] + f["length"])]}, {dr: [(f["dst"], f["dst"] + f["length"])]}
    reads, writes = {}, {}
    ih, iw = ifm_extent(f)
    ifm, ofm = f["ifm"], f["ofm"]
    reads.setdefault(ifm["region"], []).extend(fm_box(ifm, 0, ih, 0, iw, 0, ifm["depth"]))
    if f["kind"] == "elementwise" and "ifm2" in f and "base" in f["ifm2"]:
        b = f["broadcast"]
        i2 = f["ifm2"]
        h2 = 1 if b["h"] else ofm["height"]
        w2 = 1 if b["w"] else ofm["width"]
        d2 = 1 if b["c"] else ofm["depth"]
        reads.setdefault(i2["region"], []).extend(fm_box(i2, 0, h2, 0, w2, 0, d2))
    for key in ("weights", "scales"):
        if key in f:
            for b, ln in zip(f[key]["base"], f[key]["length"]):
                if b is not None and ln:
                    reads.setdefault(f[key]["region"], []).append((b, b + ln))
    lb = lut_bytes(f, accel)
    if lb:
        reads.setdefault(csdec.SHRAM_REGION, []).append(lb)
    writes.setdefault(ofm["region"], []).extend(fm_box(ofm, 0, ofm["height"], 0, ofm["width"], 0, ofm["depth"]))
    # H9: a kernel operation may write every SHRAM bank below the LUT area it respects
    writes.setdefault(csdec.SHRAM_REGION, []).append((0, hw.lut_start_bank(accel, lb is not None) * hw.SHRAM_BANK_BYTES))
    return {r: merge(iv) for r, iv in reads.items()}, {r: merge(iv) for r, iv in writes.items()}

"""C14 - compilation is deterministic and independent of process history."""
import hashlib
import os
import subprocess
import sys
import json
import tempfile

from runner import Part, Violation, sub_seed, run_hypothesis, HarnessError, VERIF
import fbwrite
import forkcall
import tflgen
import vcompile

PROPERTY = "C14"
RULE = (
    "histories: Hypothesis lists of 2-8 steps executed in ONE process; each step compiles a model from a per-history pool of 2-4 generated networks built to share "
    "content (the same network twice, networks with identical lookup tables (TANH/LOGISTIC with equal quantisation), identical weights, equal tensor names) with an "
    "option set from a small pool (different accelerators / allocators / optimise) through main, convert or convert_bytes; after every step the produced model bytes "
    "and outcome must equal those of a pristine single-shot compile of the same (model, options, entry) in a forked fresh process. hash seeds: pool networks compiled "
    "in fresh interpreter processes under three (quick) or four (thorough, one repeated) PYTHONHASHSEED values must give one digest. "
    "non-trivial = history with >=2 successful compilations of which a later one shares a LUT / weights / the whole network with an earlier one, or mixes entry points or "
    "accelerators; distinct = hash of the history."
)
ASSUMPTIONS = [
    "the pristine reference is a compile in a process forked from a parent that has imported but never run the compiler",
    "timing fields and file-system paths are not part of the comparison (model bytes and outcome class are)",
]


def digest(b):
    return hashlib.sha256(b).hexdigest()[:24] if b is not None else None


def outcome(res):
    if res.get("timeout"):
        return ("timeout", None)
    if res.get("exc") is not None:
        return ("exception", "%s@%s: %s" % (res["exc"][0], res["exc"][2], res["exc"][1][:120]))
    if res.get("died") is not None and res.get("code") is None:
        return ("died", res["died"])
    if res.get("code") == 0 and res.get("out_model") is not None:
        return ("ok", digest(res["out_model"]))
    return ("rejected", res.get("code"))


def _history_child(arg):
    """run all steps in this one process; returns the outcome of every step"""
    import contextlib
    import glob
    import io
    import shutil

    import velaenv

    velaenv.init()
    from ethosu.vela import vela

    models, steps = arg
    out = []
    buffers = {}
    d = tempfile.mkdtemp(prefix="c14-")
    try:
        for si, (mi, cfg, entry) in enumerate(steps):
            data = models[mi]
            sd = os.path.join(d, "s%d" % si)
            os.makedirs(sd)
            net = os.path.join(sd, "net.tflite")
            with open(net, "wb") as f:
                f.write(data)
            os.chdir(sd)
            buf = io.StringIO()
            res = dict(code=None, exc=None, out_model=None)
            try:
                with contextlib.redirect_stdout(buf), contextlib.redirect_stderr(buf):
                    if entry == "main":
                        res["code"] = vela.main(tflgen.cli_args(cfg, net, os.path.join(sd, "out")))
                        outs = glob.glob(os.path.join(sd, "out", "*_vela.tflite"))
                        if outs:
                            with open(outs[0], "rb") as f:
                                res["out_model"] = f.read()
                    elif entry == "convert":
                        p = vela.convert(net)
                        res["code"] = 0
                        with open(p, "rb") as f:
                            res["out_model"] = f.read()
                    else:
                        # the caller keeps ONE buffer per model for the whole history (an application that holds its model in memory and converts it again): the
                        # compiler must leave that buffer alone
                        buf = buffers.setdefault(mi, bytearray(data))
                        try:
                            res["out_model"] = bytes(vela.convert_bytes(buf))
                            res["code"] = 0
                        finally:
                            if bytes(buf) != data:
                                res = dict(code=None, exc=("InputBufferModified", "convert_bytes changed %d byte(s) of the caller's model buffer" % sum(1 for a, b in zip(bytes(buf), data) if a != b),
                                                           "vela.py:convert_bytes", ""), out_model=None)
                                buffers[mi] = bytearray(data)
            except SystemExit as e:
                res["code"] = e.code if isinstance(e.code, int) else 1
            except BaseException as e:  # noqa
                res["exc"] = (type(e).__name__, str(e)[:300], forkcall._frame(e), "")
            out.append(outcome(res))
    finally:
        os.chdir("/")
        shutil.rmtree(d, ignore_errors=True)
    return out


_pristine = {}


def pristine(model_bytes, cfg, entry):
    key = (digest(model_bytes), json.dumps(cfg, sort_keys=True), entry)
    if key not in _pristine:
        res = vcompile.compile_spec(None, cfg, entry=entry, model_bytes=model_bytes)
        if res.get("harness"):
            raise HarnessError(res["exc"][3])
        _pristine[key] = outcome(res)
    return _pristine[key]


def oracle(case, rec=None):
    models = [fbwrite.build(s) for s in case["pool"]]
    steps = [(st["model"], case["cfgs"][st["cfg"]], st["entry"]) for st in case["steps"]]
    r = forkcall.forkcall(_history_child, (models, steps), 900)
    if r[0] != "ok":
        raise Violation("C14/history-process/%s" % r[0], "history process %s" % (r[1:3],), case)
    got = r[1]
    ok_steps = 0
    for i, (g, (mi, cfg, entry)) in enumerate(zip(got, steps)):
        want = pristine(models[mi], cfg, entry)
        if want[0] in ("timeout",) or g[0] == "timeout":
            continue
        if g[0] != want[0]:
            raise Violation("C14/history/outcome", "step %d (%s model %d on %s): in this process history the compile ended as %s (%s) but a pristine process gives %s (%s)" % (
                i, entry, mi, cfg["accel"], g[0], g[1], want[0], want[1]), case)
        if g[0] == "ok":
            ok_steps += 1
            if g[1] != want[1]:
                raise Violation("C14/history/bytes", "step %d (%s model %d on %s): output model differs from a pristine compile (digest %s vs %s)" % (i, entry, mi, cfg["accel"], g[1], want[1]), case)
    if rec is not None:
        rec.cls("history-len-%d" % len(steps), *("entry-" + s["entry"] for s in case["steps"]))
        seen = set()
        shares = False
        for s in case["steps"]:
            if s["model"] in seen or case["twins"]:
                shares = True
            seen.add(s["model"])
        mixed = len(set(s["entry"] for s in case["steps"])) > 1 or len(set(case["cfgs"][s["cfg"]]["accel"] for s in case["steps"])) > 1
        if ok_steps >= 2 and (shares or mixed):
            rec.nontriv([case], sample=dict(steps=case["steps"], pool=[[o["code"] for o in s["ops"]] for s in case["pool"]], cfgs=[c["accel"] for c in case["cfgs"]], twins=case["twins"]))


def history_strategy():
    from hypothesis import strategies as st

    @st.composite
    def case(draw):
        base = draw(tflgen.network("npu", max_ops=4, big=False, dtypes=("int8", "int8", "uint8")))
        pool = [base]
        twins = False
        how = draw(st.sampled_from(["lut-twin", "lut-twin", "independent", "same-weights", "same-buffer", "option-twin", "option-twin"]))
        if how == "lut-twin":
            # two networks ending in the same activation with equal quantisation -> identical LUT contents
            import copy

            for k in range(2):
                s = draw(tflgen.network("exact", max_ops=2, big=False, dtypes=("int8",)))
                last = s["outputs"][0]
                t = dict(s["tensors"][last])
                # requantise to a common scale first so that both tables are identical
                s["tensors"].append(dict(name="common_q_%d" % k, shape=t["shape"], dtype=t["dtype"], scale=0.05, zp=3, data=None, qdim=0))
                s["ops"].append(dict(code="QUANTIZE", inputs=[last], outputs=[len(s["tensors"]) - 1], opts=dict(table="QuantizeOptions", fields={}), version=2))
                s["tensors"].append(dict(name="tanh_out_%d" % k, shape=t["shape"], dtype=t["dtype"], scale=1.0 / 128, zp=0, data=None, qdim=0))
                s["ops"].append(dict(code="TANH", inputs=[len(s["tensors"]) - 2], outputs=[len(s["tensors"]) - 1], opts=None, version=2))
                s["outputs"] = [len(s["tensors"]) - 1] + s["outputs"][1:]
                pool.append(s)
            twins = True
        elif how == "option-twin":
            # two networks that differ in nothing but one option value of one operator (the GELU variant, the LEAKY_RELU slope, the SOFTMAX beta, a fused activation):
            # whatever the compiler derives from that operator (tables, scales, clamps) must not be remembered under a key that leaves the option out
            import copy

            s = draw(tflgen.network("exact", max_ops=2, big=False, dtypes=("int8",)))
            last = s["outputs"][0]
            t = dict(s["tensors"][last])
            kind = draw(st.sampled_from(["GELU", "GELU", "LEAKY_RELU", "SOFTMAX", "FAF"]))
            s["tensors"].append(dict(name="common_q", shape=t["shape"], dtype=t["dtype"], scale=draw(st.sampled_from([0.05, 0.02, 0.1])), zp=draw(st.integers(-20, 20)), data=None, qdim=0))
            s["ops"].append(dict(code="QUANTIZE", inputs=[last], outputs=[len(s["tensors"]) - 1], opts=dict(table="QuantizeOptions", fields={}), version=2))
            src = len(s["tensors"]) - 1
            if kind == "SOFTMAX":
                s["tensors"].append(dict(name="tail_out", shape=t["shape"], dtype=t["dtype"], scale=1.0 / 256, zp=-128, data=None, qdim=0))
                op = dict(code="SOFTMAX", inputs=[src], outputs=[len(s["tensors"]) - 1], opts=dict(table="SoftmaxOptions", fields=dict(Beta=1.0)), version=2)
                alt = dict(Beta=draw(st.sampled_from([0.5, 2.0])))
            elif kind == "FAF":
                s["tensors"].append(dict(name="tail_out", shape=t["shape"], dtype=t["dtype"], scale=0.1, zp=0, data=None, qdim=0))
                op = dict(code="ADD", inputs=[src, src], outputs=[len(s["tensors"]) - 1], opts=dict(table="AddOptions", fields=dict(FusedActivationFunction=0)), version=2)
                alt = dict(FusedActivationFunction=draw(st.sampled_from([1, 3])))
            else:
                s["tensors"].append(dict(name="tail_out", shape=t["shape"], dtype=t["dtype"], scale=draw(st.sampled_from([0.05, 0.03])), zp=draw(st.integers(-10, 10)), data=None, qdim=0))
                if kind == "GELU":
                    op = dict(code="GELU", inputs=[src], outputs=[len(s["tensors"]) - 1], opts=dict(table="GeluOptions", fields=dict(Approximate=draw(st.booleans()))), version=2)
                    alt = dict(Approximate=not op["opts"]["fields"]["Approximate"])
                else:
                    op = dict(code="LEAKY_RELU", inputs=[src], outputs=[len(s["tensors"]) - 1], opts=dict(table="LeakyReluOptions", fields=dict(Alpha=0.1)), version=2)
                    alt = dict(Alpha=draw(st.sampled_from([0.2, 0.01, 0.5])))
            s["ops"].append(op)
            s["outputs"] = [len(s["tensors"]) - 1] + s["outputs"][1:]
            s2 = copy.deepcopy(s)
            s2["ops"][-1]["opts"]["fields"].update(alt)
            pool += [s, s2]
            twins = True
        elif how == "same-buffer":
            # one model converted several times from the same in-memory buffer; its graph contains constants the compiler rewrites while optimising (a PAD over channels and
            # rows is split and its paddings are changed): nothing of that may leak into the caller's buffer or into the next conversion
            import copy
            import corners

            s2 = copy.deepcopy(draw(tflgen.network("exact", max_ops=2, big=False, dtypes=("int8", "int8", "uint8"))))
            corners.pad_tail(s2, draw, st)
            pool = [s2, base]
            twins = True
        elif how == "independent":
            pool.append(draw(tflgen.network("npu", max_ops=4, big=False, dtypes=("int8", "int8", "uint8"))))
        else:
            import copy

            s2 = copy.deepcopy(base)
            s2["tensors"][0]["name"] = "other_input"
            pool.append(s2)
            twins = True
        cfgs = [draw(tflgen.config()) for _ in range(draw(st.integers(1, 3)))]
        for c in cfgs:
            c.pop("extra", None)
        n = draw(st.integers(2, 8))
        steps = [dict(model=draw(st.integers(0, len(pool) - 1)), cfg=draw(st.integers(0, len(cfgs) - 1)), entry=draw(st.sampled_from(["main", "main", "main", "convert", "convert_bytes"]))) for _ in range(n)]
        if how == "option-twin":
            a, b = draw(st.permutations([1, 2]))
            steps = [dict(model=a, cfg=0, entry=steps[0]["entry"]), dict(model=b, cfg=0, entry=steps[1]["entry"])] + steps[: max(0, n - 2)]
        if how == "same-buffer":
            steps = [dict(model=0, cfg=0, entry="convert_bytes"), dict(model=0, cfg=0, entry="convert_bytes")] + steps[: max(0, n - 2)]
        return dict(kind="history", pool=pool, cfgs=cfgs, steps=steps, twins=twins)

    return case()


def histories(ctx, arg, rec):
    shard, n = arg
    run_hypothesis(rec, history_strategy(), oracle, n, sub_seed(ctx.seed, PROPERTY, "hist", shard))


# ---- hash seeds --------------------------------------------------------------------------------------------
HASH_RUNNER = r"""
import sys, json, hashlib
sys.path[:0] = [%r, %r, %r]
import vcompile, fbwrite
spec, cfg = json.load(open(sys.argv[1]))
res = vcompile.compile_spec(spec, cfg)
print("DIGEST", hashlib.sha256(res["out_model"]).hexdigest()[:24] if res.get("out_model") else "none", res.get("code"))
"""


def oracle_hashseed(case, rec=None):
    d = tempfile.mkdtemp(prefix="c14h-")
    try:
        p = os.path.join(d, "case.json")
        with open(p, "w") as f:
            json.dump([case["spec"], case["cfg"]], f)
        code = HASH_RUNNER % (os.path.join(VERIF, "lib"), os.path.join(VERIF, "vendor"), os.path.join(VERIF, ".deps"))
        digs = {}
        for hs in case["hashseeds"]:
            env = dict(os.environ, PYTHONHASHSEED=str(hs))
            r = subprocess.run([sys.executable, "-c", code, p], env=env, capture_output=True, text=True, timeout=900)
            line = [l for l in r.stdout.splitlines() if l.startswith("DIGEST")]
            if not line:
                raise HarnessError("hash-seed runner failed: %s" % (r.stderr[-800:],))
            digs.setdefault(line[0], []).append(hs)
        if len(digs) != 1:
            raise Violation("C14/hashseed", "output depends on PYTHONHASHSEED: %s" % {k: v for k, v in digs.items()}, case)
        if rec is not None:
            rec.cls("hashseed")
            if "none" not in list(digs)[0]:
                rec.nontriv(["hs", case["spec"], case["cfg"]], sample=dict(kind="hashseed", ops=[o["code"] for o in case["spec"]["ops"]], seeds=case["hashseeds"], digest=list(digs)[0]))
    finally:
        import shutil

        shutil.rmtree(d, ignore_errors=True)


def hashseeds(ctx, arg, rec):
    from hypothesis import strategies as st

    shard, n = arg
    import corners

    @st.composite
    def net(draw):
        spec = draw(tflgen.network(draw(st.sampled_from(["wide", "wide", "cpumix"])), max_ops=7, big=False))
        if draw(st.booleans()):
            # several third-party custom operators with different names (what is hashed differs per operator: set / dict orders are the usual leak)
            import copy

            spec = copy.deepcopy(spec)
            corners.custom_tail(spec, draw, st)
        return spec

    strat = st.builds(lambda spec, cfg, a: dict(kind="hashseed", spec=spec, cfg=cfg, hashseeds=[0, a, a, a + 1] if not ctx.quick else [0, a, a + 7]), net(), tflgen.config(), st.integers(1, 1000))
    run_hypothesis(rec, strat, oracle_hashseed, n, sub_seed(ctx.seed, PROPERTY, "hs", shard))


def parts(ctx):
    q = ctx.quick
    return [Part("hist%02d" % i, histories, (i, 8 if q else 320)) for i in range(12)] + [Part("hashseed%d" % i, hashseeds, (i, 8 if q else 100)) for i in range(4)]


def replay(ctx, case):
    if case.get("kind") == "hashseed":
        oracle_hashseed(case, None)
    else:
        oracle(case, None)

"""C06 - the register command stream encodes exactly the operations it was given.

Part A: Hypothesis-generated lists of legal NpuOperations (built so that consecutive operations share many field
values) -> api.npu_generate_register_command_stream -> independent decoder with persistent register state ->
field-by-field comparison with an expectation derived from the *specification of the operation* (not from Vela).
Part B (e2e_parts): the same comparison on operation lists captured from generated networks.
"""
import copy
import math

from runner import Part, Violation, sub_seed, run_hypothesis, sut
import csdec
import hw
import tflref
import velaenv

PROPERTY = "C06"
RULE = (
    "lists of 1-8 legal NpuOperations (conv, depthwise, pooling MAX/AVERAGE/REDUCE_SUM, elementwise incl. scalar/broadcast/reversed operands, DMA incl. SHRAM "
    "destinations; uint8/int8/int16/int32; NHWC/NHCWB16; 1-4 tiles; default or explicit strides; pads; kernels to 8x8, stride 1-3, dilation 1-2; activations incl. "
    "min/max/LUT index; upscaling; rounding modes; explicit rescale; 1 or 2 cores; regions 0-7; 32/40-bit addresses) x 6 accelerators; each operation after the first "
    "is, with probability 0.7, a copy of an earlier one with 1-3 fields re-drawn, which is what exercises register elision against a history. "
    "non-trivial = list of >=2 operations in which some register value consumed by operation n was last written before operation n-1's op code (an elided write that is "
    "needed); distinct = hash of the spec list."
)
ASSUMPTIONS = [
    "register layout: DESIGN.md Appendix A / lib/csdec.py; opcode numbers from the pinned vendor/npu_regs.py",
    "legal = every field representable in its register and the alignment rules of register_command_stream_util.check_*",
    "ADD/SUB with equal input scales (the 'simplified' regimes) and pooling rescale regimes other than fused quantize/unit rescale: the scale registers are not "
    "compared with a formula here (C09/C01 decide them); MUL, ADD/SUB with unequal scales, explicit rescale, LRELU/ABS are compared exactly",
    "BLOCKDEP and the wait commands are only checked for form here (range, position); C04 decides their values",
]

DT = {"uint8": (8, 0), "int8": (8, 1), "int16": (16, 1), "int32": (32, 1)}


# ------------------------------------------------------------------------------------------------------------
def _api():
    velaenv.init()
    from ethosu.vela import api

    return api


def build_fm(api, s):
    fm = api.NpuFeatureMap()
    fm.data_type = getattr(api.NpuDataType, s["dtype"].upper())
    fm.region = s["region"]
    fm.shape = api.NpuShape3D(height=s["shape"][0], width=s["shape"][1], depth=s["shape"][2])
    t = s["tiles"]
    fm.tiles = api.NpuTileBox(height_0=t[0], height_1=t[1], width_0=t[2], addresses=list(t[3]))
    fm.quantization = None if s["scale"] is None and s["zp"] is None else api.NpuQuantization(scale_f32=s["scale"], zero_point=s["zp"] or 0)
    fm.layout = api.NpuLayout.NHCWB16 if s["layout"] == "NHCWB16" else api.NpuLayout.NHWC
    fm.strides = None if s["strides"] is None else api.NpuShape3D(height=s["strides"][0], width=s["strides"][1], depth=s["strides"][2])
    fm.name = s.get("name")
    return fm


def build_op(api, s, accel_enum):
    k = s["kind"]
    if k == "dma":
        op = api.NpuDmaOperation(api.NpuAddressRange(*s["src"]), api.NpuAddressRange(*s["dest"]))
        op.channel, op.mode = s.get("channel", 0), s.get("mode", 0)
        return op
    if k == "conv":
        op = api.NpuConv2DOperation()
        op.block_traversal = api.NpuBlockTraversal.PART_KERNEL_FIRST if s["part_kernel"] else api.NpuBlockTraversal.DEPTH_FIRST
    elif k == "depthwise":
        op = api.NpuConvDepthWiseOperation()
    elif k == "pool":
        op = api.NpuPoolingOperation(getattr(api.NpuPoolingOp, s["mode"]))
        op.rescale = s.get("rescale")
    else:
        op = api.NpuElementWiseOperation(getattr(api.NpuElementWiseOp, s["mode"]))
        op.reversed_operands = s.get("reversed", False)
        op.rescale = tuple(s["rescale"]) if s.get("rescale") else None
    op.ifm = build_fm(api, s["ifm"])
    op.ofm = build_fm(api, s["ofm"])
    if s.get("ifm2") is not None:
        op.ifm2 = build_fm(api, s["ifm2"])
        op.ifm2_scalar = s.get("ifm2_scalar")
    if k != "elementwise":
        kk = s["kernel"]
        op.kernel = api.NpuKernel(kk[0], kk[1], kk[2], kk[3], kk[4], kk[5])
        op.padding = api.NpuPadding(*s["padding"])
    op.weights = [api.NpuAddressRange(*w) for w in s.get("weights", [])]
    op.biases = [api.NpuAddressRange(*w) for w in s.get("biases", [])]
    a = s.get("activation")
    if a is not None:
        act = api.NpuActivation(getattr(api.NpuActivationOp, a["type"]))
        act.min, act.max, act.lookup_table_index = a.get("min"), a.get("max"), a.get("lut", 0)
        op.activation = act
    op.rounding_mode = getattr(api.NpuRoundingMode, s.get("rounding", "TFL"))
    op.fused_quantize = s.get("fused_quantize", False)
    op.ifm_upscale = getattr(api.NpuResamplingMode, s.get("upscale", "NONE"))
    return op


def choose_block(api, op, s, accel_enum, case):
    try:
        cfgs = sut("C06/find_block_configs", case, api.npu_find_block_configs, op, accel_enum, allowed=(AssertionError,))
    except AssertionError:
        return None  # the query asserts when nothing fits (C15 looks at the query itself)
    if not cfgs:
        return None
    return cfgs[s.get("block_index", 0) % len(cfgs)]


# ------------------------------------------------------------------------------------------------------------
def q_float32(value, scale, zp):
    """numeric_util.quantise_float32 semantics: zp + round-half-away(float32(value)/float32(scale))"""
    import numpy as np

    return zp + tflref.tflite_round(float(np.float32(value) / np.float32(scale)))


def exp_fm(s, ofm=False):
    bits, signed = DT[s["dtype"]]
    esz = bits // 8
    h, w, d = s["shape"]
    if s["strides"] is not None:
        sy, sx, sc = s["strides"]
    elif s["layout"] == "NHWC":
        sc = esz
        sx = d * esz
        sy = w * sx
    else:
        sx = 16 * esz
        sc = sx * w
        sy = esz * w * (-(-d // 16) * 16)
    t = s["tiles"]
    e = dict(signed=signed, bits=bits, nhcwb16=1 if s["layout"] == "NHCWB16" else 0, region=s["region"], base=list(t[3]),
             height0=((t[0] - 1) & 0xFFFF) + 1, height1=((t[1] - 1) & 0xFFFF) + 1, width0=((t[2] - 1) & 0xFFFF) + 1,
             stride_x=sx, stride_y=sy, stride_c=sc, zero_point=int(s["zp"] or 0))
    if ofm:
        e.update(height=h, width=w, depth=d)
    return e


def expected(s, accel):
    """decoded fields the stream must yield for spec s (same structure as csdec.fields, only keys that are asserted)"""
    k = s["kind"]
    ncores = hw.ACCELS[accel]["cores"]
    if k == "dma":
        return dict(kind="dma", src_region=s["src"][0], src=s["src"][1], length=s["src"][2], dst_region=s["dest"][0], dst=s["dest"][1], channel=s.get("channel", 0), mode=s.get("mode", 0))
    e = dict(kind=k)
    e["ifm"] = exp_fm(s["ifm"])
    e["ifm"]["depth"] = s["ifm"]["shape"][2]
    e["ofm"] = exp_fm(s["ofm"], True)
    e["ofm"]["rounding"] = {"TFL": 0, "TRUNCATE": 1, "NATURAL": 2}[s.get("rounding", "TFL")]
    e["upscale"] = {"NONE": 0, "NEAREST": 1, "TRANSPOSE": 2}[s.get("upscale", "NONE")]
    obits, osigned = DT[s["ofm"]["dtype"]]
    omin = -(1 << (obits - 1)) if osigned else 0
    omax = (1 << (obits - 1)) - 1 if osigned else (1 << obits) - 1
    a = s.get("activation") or dict(type="NONE_OR_RELU")
    oscale = s["ofm"]["scale"] if s["ofm"]["scale"] is not None else 1
    ozp = int(s["ofm"]["zp"] or 0) if (s["ofm"]["scale"] is not None or s["ofm"]["zp"] is not None) else 0
    amin = omin if a.get("min") is None else q_float32(a["min"], oscale, ozp)
    amax = omax if a.get("max") is None else q_float32(a["max"], oscale, ozp)
    amin = max(amin, -32768, omin)
    amax = min(amax, 32767, omax)
    if a["type"] == "TABLE_LOOKUP":
        raw = 16 + a.get("lut", 0)
        if s["ofm"]["dtype"] == "int32":
            raw |= 3 << 12
            amin, amax = max(-128, amin), min(127, amax)
    else:
        raw = {"NONE_OR_RELU": 0, "TANH": 3, "SIGMOID": 4}[a["type"]]
    e["activation"] = dict(raw=raw, min=amin, max=amax)
    e["block"] = dict(height=s["block"][0], width=s["block"][1], depth=s["block"][2])
    if k != "elementwise":
        kw, kh, sx, sy, dx, dy = s["kernel"]
        e["kernel"] = dict(stride_x=sx, stride_y=sy, dilation_x=dx, dilation_y=dy, dilated_h=dy * (kh - 1) + 1, dilated_w=dx * (kw - 1) + 1,
                           part_kernel=1 if (k == "conv" and s["part_kernel"]) else 0)
        p = s["padding"]
        e["pad"] = dict(top=p[0], left=p[1], bottom=p[2], right=p[3])
    if k in ("conv", "depthwise"):
        for key, lst in (("weights", s.get("weights", [])), ("scales", s.get("biases", []))):
            if not lst:
                continue
            base = [lst[0][1], None]
            length = [lst[0][2], None]
            if len(lst) > 1:
                base[1], length[1] = lst[1][1], lst[1][2]
            elif ncores > 1:
                base[1], length[1] = lst[0][1], 0
            ee = dict(region=lst[0][0], base=base if base[1] is not None else [base[0]], length=length if length[1] is not None else [length[0]])
            e[key] = ee
    if k == "pool":
        e["mode"] = s["mode"]
        pads = sum(s["padding"])
        gs = s["mode"] in ("AVERAGE", "REDUCE_SUM") and pads == 0
        e["ofm"]["global_scale"] = 1 if gs else 0
        if gs and s.get("fused_quantize") and a["type"] not in ("TANH", "SIGMOID") and s["ifm"]["scale"] is not None and s["ofm"]["scale"] is not None:
            import numpy as np

            m, sh = tflref.quantize_multiplier(float(s["ifm"]["scale"]) / float(s["ofm"]["scale"]))
            e["ofm_scale_value"] = (m, 31 - sh)
    if k == "elementwise":
        e["mode"] = s["mode"]
        e["ofm"]["global_scale"] = 1 if s["mode"] in ("ADD", "SUB", "MUL", "LRELU", "ABS") else 0
        binary = s["mode"] not in ("LRELU", "ABS", "CLZ")
        if binary:
            i1, i2 = s["ifm"], s["ifm2"]
            scalar = s.get("ifm2_scalar") is not None
            bc = dict(reverse=1 if s.get("reversed") else 0, scalar=1 if scalar else 0)
            if not scalar:
                bc.update(h=1 if i1["shape"][0] != i2["shape"][0] else 0, w=1 if i1["shape"][1] != i2["shape"][1] else 0, c=1 if i1["shape"][2] != i2["shape"][2] else 0)
                e["ifm2"] = exp_fm(i2)
                e["ifm2"]["scale_mode"] = 0
            else:
                bits2, signed2 = DT[i2["dtype"]]
                zp2 = int(i2["zp"] or 0)
                sc2 = i2["scale"] if i2["scale"] is not None else 1
                e["ifm2"] = dict(signed=signed2, bits=bits2, zero_point=zp2, scalar=q_float32(s["ifm2_scalar"], sc2, zp2 if (i2["scale"] is not None or i2["zp"] is not None) else 0) & 0xFFFF)
            e["broadcast"] = bc
        # scaling
        import numpy as np

        s1 = s["ifm"]["scale"]
        s2 = s["ifm2"]["scale"] if s.get("ifm2") else None
        so = s["ofm"]["scale"]
        if a["type"] in ("TANH", "SIGMOID"):
            so = 1 / 0x3000
        mode = s["mode"]
        if mode in ("ADD", "SUB", "MUL") and s.get("rescale"):
            e["ofm_scale"] = (s["rescale"][0] & 0xFFFFFFFF, s["rescale"][1])
            if mode != "MUL":
                e["opa_scale"], e["opb_scale"], e["ifm"]["scale_mode"] = (1, 0), (1, 0), 0
        elif mode in ("ADD", "SUB", "MUL") and None in (s1, s2, so):
            e["ofm_scale"] = (1, 0)
            if mode != "MUL":
                e["opa_scale"], e["opb_scale"], e["ifm"]["scale_mode"] = (1, 0), (1, 0), 0
        elif mode == "MUL":
            cands = []
            ds = [float(s1) * float(s2) / float(so)]  # Python float scales: double arithmetic
            if s["ifm"].get("scale_is_f32") and a["type"] not in ("TANH", "SIGMOID"):
                ds.append(float(np.float32(np.float32(s1) * np.float32(s2)) / np.float32(so)))  # np.float32 scales (as the compiler passes them): float32 arithmetic
            for d in ds:
                if d is None:
                    continue
                _, ex = math.frexp(d)
                if -32 <= ex <= 31:
                    m, sh = tflref.quantize_multiplier(d) if -31 <= ex <= 29 else (None, None)
                    if m is not None:
                        cands.append((m, 31 - sh))
            if cands:
                e["ofm_scale_any"] = cands
        elif mode in ("ADD", "SUB") and float(s1) != float(s2) and a["type"] not in ("TANH", "SIGMOID"):
            bits = DT[s["ifm"]["dtype"]][0]
            if bits in (8, 16):
                left_shift, (m1, e1), (m2, e2), (mo, eo) = tflref.add_sub_params(s1, s2, so, bits)
                a_is_smaller = float(s1) < float(s2)
                mi, ei = (m1, e1) if a_is_smaller else (m2, e2)
                # operand scale value = multiplier * 2^(ei-31) * 2^left_shift = mi * 2^-(31 - ei - left_shift)
                e["opa_scale"] = (mi, 31 - ei - left_shift)
                scaled = 1 if a_is_smaller else 2
                if s.get("reversed"):
                    scaled = 2 if scaled == 1 else 1
                e["ifm"]["scale_mode"] = scaled
                _, ex = math.frexp(2.0 * max(float(s1), float(s2)) / ((1 << left_shift) * float(so)))
                if -31 <= ex <= 29 and 0 <= 31 - eo <= 63:
                    e["ofm_scale"] = (mo, 31 - eo)
        elif mode in ("LRELU", "ABS"):
            if so is not None:
                _, ex = math.frexp(float(so))
                if -31 <= ex <= 29:
                    m, sh = tflref.quantize_multiplier(float(so))
                    e["ofm_scale"] = (m, 31 - sh)
        elif mode not in ("ADD", "SUB", "MUL"):
            e["ofm_scale"] = (1, 0)
    return e


def compare(exp, got, path, case, opi):
    for k, v in exp.items():
        if k == "ofm_scale_value":
            if tuple(got.get("ofm_scale", ())) != tuple(v):
                raise Violation("C06/field/ofm_scale", "operation %d: OFM_SCALE decodes to %s, expected %s" % (opi, got.get("ofm_scale"), v), case)
            continue
        if k == "ofm_scale_any":
            if tuple(got.get("ofm_scale", ())) not in [tuple(c) for c in v]:
                raise Violation("C06/field/ofm_scale", "operation %d: OFM_SCALE decodes to %s, expected one of %s" % (opi, got.get("ofm_scale"), v), case)
            continue
        if k not in got:
            raise Violation("C06/field-missing/%s%s" % (path, k), "operation %d: decoded operation has no field %s%s" % (opi, path, k), case)
        g = got[k]
        if isinstance(v, dict):
            compare(v, g, path + k + ".", case, opi)
        elif isinstance(v, (list, tuple)):
            gl = list(g)[: len(v)]
            if [x for x in gl] != list(v):
                raise Violation("C06/field/%s%s" % (path, k), "operation %d: %s%s decodes to %s, the operation given has %s" % (opi, path, k, list(g), list(v)), case)
        elif g != v:
            raise Violation("C06/field/%s%s" % (path, k), "operation %d: %s%s decodes to %s, the operation given has %s" % (opi, path, k, g, v), case)


def check_alignment_rules(f, case, opi):
    if f["kind"] == "dma":
        return
    for p in ("ifm", "ofm", "ifm2"):
        fm = f.get(p)
        if not fm or "base" not in fm:
            continue
        esz = fm["bits"] // 8
        al = 16 if fm["nhcwb16"] else esz
        for a in fm["base"]:
            if a % al:
                raise Violation("C06/alignment/%s-base" % p, "operation %d: %s base 0x%x not %d-byte aligned" % (opi, p, a, al), case)
        chk = (fm["stride_c"], fm["stride_y"]) if fm["nhcwb16"] else (fm["stride_y"], fm["stride_x"])
        for st in chk:
            if st % al:
                raise Violation("C06/alignment/%s-stride" % p, "operation %d: %s stride %d not a multiple of %d" % (opi, p, st, al), case)
    for key in ("weights", "scales"):
        if key in f:
            for b, ln in zip(f[key]["base"], f[key]["length"]):
                if b is None:
                    continue
                if (key == "weights" and b % 16) or (ln or 0) % 16:
                    raise Violation("C06/alignment/%s" % key, "operation %d: %s range (0x%x, %s) not 16-byte aligned" % (opi, key, b, ln), case)


def oracle(case, rec=None):
    api = _api()
    from ethosu.vela.errors import VelaError

    accel = case["accel"]
    accel_enum = getattr(api.NpuAccelerator, hw.ACCELS[accel]["enum"])
    specs = copy.deepcopy(case["ops"])
    ops = []
    for s in specs:
        op = build_op(api, s, accel_enum)
        if s["kind"] != "dma":
            blk = choose_block(api, op, s, accel_enum, case)
            if blk is None:
                if rec is not None:
                    rec.cls("no-block-config")
                return  # no configuration fits this operator on this accelerator: not a legal list
            op.block_config = blk
            s["block"] = [blk.height, blk.width, blk.depth]
        ops.append(op)
    words = sut("C06/generate", case, api.npu_generate_register_command_stream, ops, accel_enum)
    try:
        cmds = csdec.decode_words([int(w) for w in words])
    except csdec.DecodeError as e:
        raise Violation("C06/undecodable", str(e), case)
    if not cmds or cmds[-1].kind != "stop" or sum(1 for c in cmds if c.kind == "stop") != 1:
        raise Violation("C06/stop", "stream must end with exactly one NPU_OP_STOP (kinds: %s)" % [c.kind for c in cmds][-4:], case)
    if cmds[-1].word_index != len(words) - 1:
        raise Violation("C06/stop", "words follow NPU_OP_STOP", case)
    real = [c for c in cmds if c.kind in ("conv", "depthwise", "pool", "elementwise", "dma")]
    if len(real) != len(specs):
        raise Violation("C06/op-count", "%d operations given, %d operation commands emitted" % (len(specs), len(real)), case)
    # waits must directly precede the op they guard (only wait commands between the last register write and the op code)
    for i, c in enumerate(cmds):
        if c.kind in ("kernel_wait", "dma_wait"):
            j = i + 1
            while j < len(cmds) and cmds[j].kind in ("kernel_wait", "dma_wait"):
                j += 1
            if j >= len(cmds) or cmds[j].kind == "stop" or cmds[j].writes_since_prev:
                raise Violation("C06/wait-position", "a wait command is not directly followed by the operation it guards", case)
            if c.param > 3:
                raise Violation("C06/wait-param", "wait command with outstanding count %d" % c.param, case)
    needed_elision = False
    for opi, (s, c) in enumerate(zip(specs, real)):
        try:
            f = csdec.fields(c)
        except csdec.DecodeError as e:
            raise Violation("C06/undecodable-op", "operation %d (%s): %s" % (opi, s["kind"], e), case)
        if f["kind"] != s["kind"]:
            raise Violation("C06/op-kind", "operation %d is %s but the stream runs %s" % (opi, s["kind"], f["kind"]), case)
        exp = expected(s, accel)
        compare(exp, f, "", case, opi)
        check_alignment_rules(f, case, opi)
        if f["kind"] != "dma":
            if not (0 <= f["blockdep"] <= 3):
                raise Violation("C06/blockdep-range", "operation %d: BLOCKDEP %d" % (opi, f["blockdep"]), case)
            if "NPU_SET_BLOCKDEP" in c.writes_since_prev and c.writes_since_prev[-1] != "NPU_SET_BLOCKDEP":
                pass  # BLOCKDEP is written after the operation's own registers; nothing else may follow it but waits (checked above)
            want_pm = hw.ACCELS[accel]["cores"] - 1
            if f["parallel_mode"] != want_pm and hw.ACCELS[accel]["product"] == 1:
                raise Violation("C06/parallel-mode", "PARALLEL_MODE %d on %s" % (f["parallel_mode"], accel), case)
        if opi >= 1:
            prev_real_index = real[opi - 1].index
            for rname in csdec.consumed_registers(c):
                wa = c.written_at.get(rname)
                if wa is not None and wa < prev_real_index:
                    needed_elision = True
                    break
    if rec is not None:
        rec.cls(accel, *["op-" + s["kind"] for s in specs])
        if len(specs) >= 2 and needed_elision:
            rec.nontriv(case, sample=case if len(str(case)) < 4000 else dict(accel=accel, kinds=[s["kind"] for s in specs]))


# ------------------------------------------------------------------------------------------------------------
def fm_strategy(draw, st, dtype, shape, accel, layout=None, quant=True):
    bits, signed = DT[dtype]
    esz = bits // 8
    h, w, d = shape
    layout = layout or draw(st.sampled_from(["NHWC", "NHCWB16"]))
    if bits == 32 and layout == "NHCWB16" and False:
        layout = "NHWC"
    al = 16 if layout == "NHCWB16" else esz
    big = hw.ACCELS[accel]["product"] == 1 and draw(st.integers(0, 9)) == 0
    def addr():
        a = draw(st.one_of(st.integers(0, 1 << 12), st.integers(0, 1 << 24), st.integers(0, (1 << 30))))
        if big:
            a += draw(st.sampled_from([1 << 32, 1 << 35, (1 << 39)]))
        return a // al * al
    tiling = draw(st.sampled_from(["one", "one", "one", "rolling", "wsplit", "four"]))
    a0 = addr()
    if tiling == "one" or (h < 2 and tiling in ("rolling", "four")) or (w < 2 and tiling in ("wsplit", "four")):
        tiles = [h, draw(st.sampled_from([0, h])), w, [a0, 0, 0, 0]]
    elif tiling == "rolling":
        h0 = draw(st.integers(1, h - 1))
        tiles = [h0, h0, w, [a0, 0, addr(), 0]]
    elif tiling == "wsplit":
        w0 = draw(st.integers(1, w - 1))
        tiles = [h, h, w0, [a0, addr(), 0, 0]]
    else:
        h0, h1, w0 = draw(st.integers(1, h - 1)), draw(st.integers(1, h - 1)), draw(st.integers(1, w - 1))
        tiles = [h0, h1, w0, [a0, addr(), addr(), addr()]]
    strides = None
    if draw(st.integers(0, 3)) == 0:
        if layout == "NHWC":
            sc = esz
            sx = (d + draw(st.integers(0, 3))) * esz
            sy = (w + draw(st.integers(0, 2))) * sx
        else:
            sx = 16 * esz
            sc = sx * (w + draw(st.integers(0, 2)))
            sy = sc * (-(-d // 16)) + 16 * draw(st.integers(0, 2))
        strides = [sy, sx, sc]
    if quant:
        scale = draw(st.sampled_from([0.5, 0.25, 0.0078125, 0.05, 0.1234, 1.0, 0.003921568859368563]))
        zp = 0 if bits > 8 else draw(st.integers(-128 if signed else 0, 127 if signed else 255))
    else:
        scale, zp = None, None
    return dict(dtype=dtype, region=draw(st.integers(0, 7)), shape=[h, w, d], layout=layout, tiles=tiles, zp=zp, scale=scale, strides=strides)


def rng16(draw, st, hi=1 << 20):
    a = draw(st.integers(0, hi)) * 16
    return a


def op_strategy(draw, st, accel):
    ncores = hw.ACCELS[accel]["cores"]
    kind = draw(st.sampled_from(["conv", "conv", "depthwise", "pool", "elementwise", "elementwise", "dma"]))
    if kind == "dma":
        n = 16 * draw(st.integers(1, 4096))
        if draw(st.booleans()):  # LUT style transfer into SHRAM
            n = draw(st.sampled_from([256, 512, 1024, 2048]))
            dest = [csdec.SHRAM_REGION, 16 * draw(st.integers(0, (hw.ACCELS[accel]["banks"] * 1024 - n) // 16)), 0]
        else:
            dest = [draw(st.integers(0, 7)), rng16(draw, st), 0]
        dest[2] = n
        return dict(kind="dma", src=[draw(st.integers(0, 7)), rng16(draw, st), n], dest=dest)
    dim = st.one_of(st.integers(1, 12), st.integers(1, 64), st.sampled_from([1, 2, 15, 16, 17, 33]))
    oh, ow, od = draw(dim), draw(dim), draw(dim)
    s = dict(kind=kind, block_index=draw(st.integers(0, 50)), rounding=draw(st.sampled_from(["TFL", "TFL", "NATURAL", "TRUNCATE"])))
    act = draw(st.sampled_from(["none", "none", "relu", "lut", "minmax"]))
    if kind in ("conv", "depthwise", "pool"):
        kw, kh = draw(st.integers(1, 8)), draw(st.integers(1, 8))
        sx, sy = draw(st.integers(1, 3)), draw(st.integers(1, 3))
        dx, dy = (draw(st.sampled_from([1, 1, 2])), draw(st.sampled_from([1, 1, 2]))) if kind != "pool" else (1, 1)
        dkh, dkw = dy * (kh - 1) + 1, dx * (kw - 1) + 1
        pad = [draw(st.integers(0, dkh - 1)), draw(st.integers(0, dkw - 1)), draw(st.integers(0, dkh - 1)), draw(st.integers(0, dkw - 1))]
        if draw(st.booleans()):
            pad = [0, 0, 0, 0]
        up = draw(st.sampled_from(["NONE", "NONE", "NONE", "NEAREST", "TRANSPOSE"]))
        ih = max(1, (oh - 1) * sy + dkh - pad[0] - pad[2])
        iw = max(1, (ow - 1) * sx + dkw - pad[1] - pad[3])
        if up != "NONE":
            ih, iw = max(1, -(-ih // 2)), max(1, -(-iw // 2))
        idt = draw(st.sampled_from(["int8", "int8", "uint8", "int16"]))
        idp = od if kind in ("depthwise", "pool") else draw(dim)
        odt = idt if kind == "pool" or draw(st.integers(0, 4)) else draw(st.sampled_from(["int8", "uint8", "int16", "int32"]))
        s.update(kernel=[kw, kh, sx, sy, dx, dy], padding=pad, upscale=up, part_kernel=draw(st.booleans()))
        s["ifm"] = fm_strategy(draw, st, idt, [ih, iw, idp], accel)
        s["ofm"] = fm_strategy(draw, st, odt, [oh, ow, od], accel)
        if kind == "pool":
            s["mode"] = draw(st.sampled_from(["MAX", "AVERAGE", "AVERAGE", "REDUCE_SUM"]))
            if s["mode"] == "REDUCE_SUM":
                s["ifm"]["layout"] = "NHWC"
                s["ifm"] = fm_strategy(draw, st, idt, [ih, iw, draw(dim)], accel, layout="NHWC")
                s["ofm"] = fm_strategy(draw, st, draw(st.sampled_from([idt, "int32"])), [oh, ow, 1], accel)
            s["fused_quantize"] = draw(st.integers(0, 3)) == 0
        else:
            wreg = draw(st.integers(0, 7))
            nw = draw(st.sampled_from([1, ncores]))
            s["weights"] = [[wreg, rng16(draw, st), 16 * draw(st.integers(1, 5000))] for _ in range(nw)]
            breg = draw(st.integers(0, 7))
            s["biases"] = [[breg, rng16(draw, st), 16 * draw(st.integers(1, 100))] for _ in range(nw)]
    else:
        mode = draw(st.sampled_from(["ADD", "ADD", "SUB", "MUL", "MIN", "MAX", "LRELU", "ABS", "CLZ", "SHR", "SHL"]))
        s["mode"] = mode
        idt = draw(st.sampled_from(["int8", "int8", "uint8", "int16"])) if mode not in ("CLZ", "SHR", "SHL") else "int32"
        odt = "int32" if mode in ("CLZ", "SHL") else idt if draw(st.integers(0, 3)) else draw(st.sampled_from(["int8", "uint8", "int16", "int32"]))
        if mode == "SHR":
            odt = draw(st.sampled_from(["int32", "int8", "int16"]))
        quant = mode not in ("CLZ", "SHR", "SHL")
        s["ifm"] = fm_strategy(draw, st, idt, [oh, ow, od], accel, quant=quant)
        s["ofm"] = fm_strategy(draw, st, odt, [oh, ow, od], accel, quant=quant)
        if mode not in ("LRELU", "ABS", "CLZ"):
            how = draw(st.sampled_from(["same", "same", "scalar", "bh", "bw", "bc", "bhw"]))
            shp2 = [oh, ow, od]
            if how in ("bh", "bhw"):
                shp2[0] = 1
            if how in ("bw", "bhw"):
                shp2[1] = 1
            if how == "bc":
                shp2[2] = 1
            s["ifm2"] = fm_strategy(draw, st, idt, shp2, accel, quant=quant)
            if draw(st.integers(0, 3)) == 0 and mode in ("ADD", "SUB", "MUL") and quant:
                s["ifm2"]["scale"] = s["ifm"]["scale"]  # equal scales regime
            if how == "scalar":
                sc2 = s["ifm2"]["scale"] if s["ifm2"]["scale"] is not None else 1
                zp2 = s["ifm2"]["zp"] or 0
                bits, signed = DT[idt]
                qv = draw(st.integers(-(1 << (bits - 1)) if signed else 0, ((1 << (bits - 1)) - 1) if signed else (1 << bits) - 1)) if bits <= 16 else draw(st.integers(-30000, 30000))
                s["ifm2_scalar"] = float((qv - zp2) * sc2)
                if q_float32(s["ifm2_scalar"], sc2, zp2) != qv:
                    s["ifm2_scalar"] = 0.0
            s["reversed"] = draw(st.booleans())
        if mode in ("ADD", "SUB", "MUL") and draw(st.integers(0, 3)) == 0:
            s["rescale"] = [draw(st.sampled_from([1 << 30, (1 << 31) - 1, 1234567890, 1, 1 << 31])), draw(st.integers(0, 63))]
    if act == "relu":
        s["activation"] = dict(type="NONE_OR_RELU", min=0.0, max=draw(st.sampled_from([None, 6.0, 1.0])))
    elif act == "minmax":
        s["activation"] = dict(type="NONE_OR_RELU", min=draw(st.sampled_from([None, -1.0, 0.0, -1000.0])), max=draw(st.sampled_from([None, 1.0, 6.0, 1000.0])))
    elif act == "lut":
        s["activation"] = dict(type="TABLE_LOOKUP", lut=draw(st.integers(0, 7)), min=None, max=None)
    return s


def mutate(draw, st, s, accel):
    s = copy.deepcopy(s)
    if s["kind"] == "dma":
        which = draw(st.sampled_from(["src", "dest", "len"]))
        if which == "src":
            s["src"][1] = rng16(draw, st)
            if hw.ACCELS[accel]["product"] == 1 and draw(st.booleans()):
                s["src"][1] += 1 << 32  # same low word, different bits 32-39
        elif which == "dest" and s["dest"][0] != csdec.SHRAM_REGION:
            s["dest"][1] = rng16(draw, st)
        else:
            n = 16 * draw(st.integers(1, 4096)) if s["dest"][0] != csdec.SHRAM_REGION else draw(st.sampled_from([256, 512, 1024, 2048]))
            if s["dest"][0] == csdec.SHRAM_REGION:  # keep the transfer inside SHRAM (a longer one is an illegal request, rightly refused)
                s["dest"][1] = min(s["dest"][1], hw.ACCELS[accel]["banks"] * 1024 - n)
            s["src"][2] = s["dest"][2] = n
        return s
    for _ in range(draw(st.integers(1, 3))):
        which = draw(st.sampled_from(["ofm_addr", "ifm_addr", "zp", "ofm_zp", "act", "region", "rounding", "scale", "hi_addr", "weights", "pad", "block", "ifm2_addr", "rescale_shift"]))
        for key, fld in (("ofm_addr", "ofm"), ("ifm_addr", "ifm"), ("ifm2_addr", "ifm2")):
            if which == key and s.get(fld):
                fm = s[fld]
                al = 16 if fm["layout"] == "NHCWB16" else DT[fm["dtype"]][0] // 8
                fm["tiles"][3][0] = draw(st.integers(0, 1 << 22)) // al * al
        if which == "hi_addr" and hw.ACCELS[accel]["product"] == 1:
            fm = s[draw(st.sampled_from(["ifm", "ofm"]))]
            fm["tiles"][3][0] = (fm["tiles"][3][0] & 0xFFFFFFFF) + draw(st.sampled_from([0, 1 << 32, 1 << 33, 1 << 39]))  # same payload word, other parameter
        if which == "zp" and s["ifm"]["zp"] is not None and DT[s["ifm"]["dtype"]][0] == 8:
            s["ifm"]["zp"] = draw(st.integers(0, 127))
        if which == "ofm_zp" and s["ofm"]["zp"] is not None and DT[s["ofm"]["dtype"]][0] == 8:
            s["ofm"]["zp"] = draw(st.integers(0, 127))
        if which == "act":
            s["activation"] = draw(st.sampled_from([None, dict(type="NONE_OR_RELU", min=0.0, max=None), dict(type="TABLE_LOOKUP", lut=draw(st.integers(0, 7)), min=None, max=None)]))
        if which == "region":
            s[draw(st.sampled_from(["ifm", "ofm"]))]["region"] = draw(st.integers(0, 7))
        if which == "rounding":
            s["rounding"] = draw(st.sampled_from(["TFL", "NATURAL", "TRUNCATE"]))
        if which == "scale" and s["ifm"]["scale"] is not None:
            s["ifm"]["scale"] = s["ifm"]["scale"] * draw(st.sampled_from([0.5, 2.0, 0.25]))  # same multiplier, other shift
        if which == "rescale_shift" and s.get("rescale") and s["kind"] == "elementwise":
            s["rescale"][1] = draw(st.integers(0, 63))
        if which == "weights" and s.get("weights"):
            s["weights"][0][1] = rng16(draw, st)
        if which == "pad" and s.get("padding"):
            kw, kh, _, _, dx, dy = s["kernel"]
            s["padding"][draw(st.integers(0, 3))] = 0
        if which == "block":
            s["block_index"] = draw(st.integers(0, 50))
    return s


def list_strategy():
    from hypothesis import strategies as st

    @st.composite
    def case(draw):
        accel = draw(st.sampled_from(hw.ACCEL_NAMES))
        n = draw(st.integers(1, 8))
        ops = []
        for i in range(n):
            if ops and draw(st.integers(0, 9)) < 7:
                ops.append(mutate(draw, st, draw(st.sampled_from(ops)), accel))
            else:
                ops.append(op_strategy(draw, st, accel))
        return dict(kind="oplist", accel=accel, ops=ops)

    return case()


def lists(ctx, arg, rec):
    shard, n = arg
    run_hypothesis(rec, list_strategy(), oracle, n, sub_seed(ctx.seed, PROPERTY, "lists", shard))


def parts(ctx):
    ps = [Part("lists%02d" % i, lists, (i, 250 if ctx.quick else 15000)) for i in range(16)]
    try:
        import props.e2e_parts as e2e

        ps += e2e.parts_for(ctx, PROPERTY)
    except ImportError:
        pass
    return ps


def replay(ctx, case):
    if "spec" in case:
        import props.e2e_parts as e2e

        return e2e.replay(ctx, PROPERTY, case)
    oracle(case, None)


# ------------------------------------------------------------------------------------------------------------
# Part B support: turn captured NpuOperation objects back into specs (inverse of build_op) so that the same
# expectation/decoder comparison runs on the operation lists Vela itself builds for generated networks.
def spec_from_fm(fm):
    if fm is None:
        return None
    q = fm.quantization
    return dict(dtype=fm.data_type.name.lower(), region=int(fm.region), shape=[int(fm.shape.height), int(fm.shape.width), int(fm.shape.depth)],
                layout="NHCWB16" if fm.layout.name == "NHCWB16" else "NHWC",
                tiles=[int(fm.tiles.height_0), int(fm.tiles.height_1), int(fm.tiles.width_0), [int(a) for a in fm.tiles.addresses]],
                zp=None if q is None else int(q.zero_point), scale=None if q is None or q.scale_f32 is None else float(q.scale_f32),
                scale_is_f32=(q is not None and q.scale_f32 is not None and type(q.scale_f32).__name__ == "float32"),
                strides=None if fm.strides is None else [int(fm.strides.height), int(fm.strides.width), int(fm.strides.depth)], name=fm.name)


def spec_from_op(op):
    from ethosu.vela import api

    if isinstance(op, api.NpuDmaOperation):
        return dict(kind="dma", src=[int(op.src.region), int(op.src.address), int(op.src.length)], dest=[int(op.dest.region), int(op.dest.address), int(op.dest.length)],
                    channel=int(op.channel), mode=int(op.mode))
    kind = {api.NpuConv2DOperation: "conv", api.NpuConvDepthWiseOperation: "depthwise", api.NpuPoolingOperation: "pool", api.NpuElementWiseOperation: "elementwise"}[type(op)]
    s = dict(kind=kind, rounding=op.rounding_mode.name, upscale=op.ifm_upscale.name, fused_quantize=bool(op.fused_quantize))
    s["ifm"] = spec_from_fm(op.ifm)
    s["ofm"] = spec_from_fm(op.ofm)
    if op.ifm2 is not None:
        s["ifm2"] = spec_from_fm(op.ifm2)
        s["ifm2_scalar"] = None if op.ifm2_scalar is None else float(op.ifm2_scalar)
    if kind != "elementwise":
        k = op.kernel
        s["kernel"] = [int(k.width), int(k.height), int(k.stride_x), int(k.stride_y), int(k.dilation_x), int(k.dilation_y)]
        s["padding"] = [int(op.padding.top), int(op.padding.left), int(op.padding.bottom), int(op.padding.right)] if op.padding is not None else [0, 0, 0, 0]
    if kind == "conv":
        s["part_kernel"] = op.block_traversal.name == "PART_KERNEL_FIRST"
    else:
        s["part_kernel"] = False
    s["weights"] = [[int(w.region), int(w.address), int(w.length)] for w in op.weights]
    s["biases"] = [[int(w.region), int(w.address), int(w.length)] for w in op.biases]
    if op.activation is not None:
        a = op.activation
        s["activation"] = dict(type=a.op_type.name, min=None if a.min is None else float(a.min), max=None if a.max is None else float(a.max), lut=int(a.lookup_table_index))
    if kind in ("pool", "elementwise"):
        s["mode"] = op.sub_op_type.name
        r = op.rescale
        if r is None:
            s["rescale"] = None
        elif kind == "elementwise":
            s["rescale"] = [int(r[0]), int(r[1])]
        elif type(r).__name__ == "ExplicitScaling":
            s["rescale"] = None
            s["explicit_scaling"] = [bool(r.per_channel), [int(x) for x in r.shift], [int(x) for x in r.multiplier]]
        else:
            s["rescale"] = float(r)
    if kind == "elementwise":
        s["reversed"] = bool(op.reversed_operands)
    s["block"] = [int(op.block_config.height), int(op.block_config.width), int(op.block_config.depth)]
    return s

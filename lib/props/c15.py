"""C15 - every block configuration used or offered is valid for the hardware."""
import copy
import math

from runner import Part, Violation, sub_seed, run_hypothesis, sut
import csdec
import hw
import velaenv
import props.c06 as c06

PROPERTY = "C15"
RULE = (
    "operator descriptors (conv incl. part-kernel, depthwise, max/avg pool, reduce-sum, unary/binary/scalar/broadcast elementwise; shapes dense 1..20 and sampled "
    "to 64 (height) / 1024 (width, depth); kernels to 8x8 x dilation, stride 1-3; 8/16/32-bit; LUT; up-scaling; quantisation present/absent) x 6 accelerators through "
    "api.npu_find_block_configs; every returned configuration is checked against the block-shape rules, and a sample of them (first, last, 8 random) is given back to "
    "npu_generate_register_command_stream, the emitted SHRAM registers decoded and checked against an independent SHRAM layout predicate. "
    "non-trivial = query returns >=2 configurations and the OFM is not 1x1x1; distinct = hash(operator descriptor, accelerator)."
)
ASSUMPTIONS = [
    "SHRAM description (pinned in lib/hw.py): 1 KiB banks; banks 0-1 output; IFM buffer from bank 2 to IB_END; IFM2 buffer from IB_START2 (binary elementwise); "
    "accumulators AB_START..LUT area; LUT = last 2 banks (always reserved on 24/48-bank accelerators); bank granule table per element kind",
    "a partition is large enough if it holds 2 x ceil(block bytes / 1024) banks rounded up to the granule; IFM block = receptive field of the OFM block "
    "(sub-kernel limit 8, up-scaling, micro-block rounding), depth 16/32 rule for convolutions, 8-byte depth rounding; accumulator depth rounded to 8",
    "Conv1D rule: when OFM height and kernel height are both 1 on a micro-block-height-2 accelerator the accumulators hold one row",
]


def acc_bits_from_format(fmt):
    return {0: 32, 1: 40, 2: 16}[fmt]


def check_block_shape(blk, accel, case):
    h, w, d = blk
    ub = hw.ACCELS[accel]["ofm_ub"]
    if h <= 0 or w <= 0 or d <= 0 or h % ub[0] or w % ub[1] or d % ub[2]:
        raise Violation("C15/block/microblock", "block %s is not a positive multiple of the %s micro-block %s" % (list(blk), accel, list(ub)), case)
    if h > hw.OFM_BLOCK_MAX[0] or w > hw.OFM_BLOCK_MAX[1] or d > hw.OFM_BLOCK_MAX[2]:
        raise Violation("C15/block/max", "block %s exceeds the maximum block 32x64x128" % (list(blk),), case)


def required_ifm_dim(v, stride, dilated_k, upscale, nearest):
    return int(math.ceil(((v - 1) * stride + min(dilated_k, hw.SUBKERNEL_MAX) + (1 if nearest else 0)) / upscale))


def check_layout(spec, blk, f, accel, case):
    """f: decoded fields of the emitted operation"""
    A = hw.ACCELS[accel]
    G = hw.GRANULES[accel]
    kind = spec["kind"]
    uses_lut = (spec.get("activation") or {}).get("type") == "TABLE_LOOKUP"
    lut_start = hw.lut_start_bank(accel, uses_lut)
    total = A["banks"]
    sh = f["shram"]
    ib_end, ab_start = sh["ib_end"], sh["ab_start"]
    ifm_bits = c06.DT[spec["ifm"]["dtype"]][0]
    ew = kind == "elementwise"
    scalar = spec.get("ifm2_scalar") is not None
    binary = ew and spec["mode"] not in ("LRELU", "ABS", "CLZ")
    if not (hw.SHRAM_OUTPUT_BANKS <= ib_end <= ab_start <= lut_start <= total):
        raise Violation("C15/layout/order", "%s %s block %s: banks not ordered: IB_START 2 <= IB_END %d <= AB_START %d <= LUT_START %d <= %d" % (
            accel, kind, list(blk), ib_end, ab_start, lut_start, total), case)
    # IFM block the hardware needs for this OFM block
    bh, bw, bd = blk
    if ew:
        ih, iw = bh, bw
        idepth = bd
    else:
        kw, kh, sx, sy, dx, dy = spec["kernel"]
        up = 1 if spec.get("upscale", "NONE") == "NONE" else 2
        nearest = spec.get("upscale") == "NEAREST"
        ub = A["ofm_ub"]
        ih = -(-required_ifm_dim(bh, sy, dy * (kh - 1) + 1, up, nearest) // ub[0]) * ub[0]
        iw = -(-required_ifm_dim(bw, sx, dx * (kw - 1) + 1, up, nearest) // ub[1]) * ub[1]
        if kind == "conv" or (kind == "pool" and spec.get("mode") == "REDUCE_SUM"):
            # operations that accumulate over the IFM depth take IFM blocks of the IFM's own (bounded) depth; REDUCE_SUM is one of them
            ifm_depth = spec["ifm"]["shape"][2]
            if ifm_bits == 16:
                idepth = -(-min(ifm_depth, 16) // 4) * 4
            else:
                idepth = -(-min(ifm_depth, 16 if spec.get("part_kernel") else 32) // A["ifm_ub"][2]) * A["ifm_ub"][2]
        else:
            idepth = bd
    ifm_bytes = ih * iw * (-(-(idepth * ifm_bits // 8) // 8) * 8)
    gran = G[(hw.G_IFM_EW if ew else hw.G_IFM)[ifm_bits]]
    ifm_banks = -(-(2 * -(-ifm_bytes // hw.SHRAM_BANK_BYTES)) // gran) * gran
    if ib_end - hw.SHRAM_OUTPUT_BANKS < ifm_banks and not ew:
        raise Violation("C15/layout/ifm", "%s %s block %s: IFM buffer has %d banks, double-buffering the %dx%dx%d %d-bit IFM block needs %d" % (
            accel, kind, list(blk), ib_end - 2, ih, iw, idepth, ifm_bits, ifm_banks), case)
    if ew:
        # no accumulators: the IFM buffer(s) extend to the LUT area
        if ab_start != lut_start:
            raise Violation("C15/layout/ew-acc", "elementwise: AB_START %d != LUT start %d" % (ab_start, lut_start), case)
        need = ifm_banks * (2 if (binary and not scalar) else 1)
        if hw.SHRAM_OUTPUT_BANKS + need > ab_start:
            raise Violation("C15/layout/ew-ifm", "%s elementwise block %s: needs %d IFM banks but only %d are available" % (accel, list(blk), need, ab_start - 2), case)
        if binary and not scalar:
            ib2 = sh["ib_start2"]
            if ib2 is None or ib2 < hw.SHRAM_OUTPUT_BANKS + ifm_banks or ib2 + ifm_banks > ab_start:
                raise Violation("C15/layout/ifm2", "%s binary elementwise block %s: IFM2 buffer at bank %s overlaps IFM (needs %d banks each) or the LUT area (%d)" % (
                    accel, list(blk), ib2, ifm_banks, ab_start), case)
    else:
        acc_bits = acc_bits_from_format(sh["acc_format"])
        want_bits = 40 if (ifm_bits == 16 and kind != "pool" and all(spec[k]["scale"] is not None for k in ("ifm", "ofm"))) else 32
        if kind == "pool" and spec.get("mode") == "REDUCE_SUM" and ifm_bits == 16 and all(spec[k]["scale"] is not None for k in ("ifm", "ofm")):
            want_bits = 40
        if acc_bits < want_bits:
            raise Violation("C15/layout/acc-format", "%s %s with %d-bit IFM uses %d-bit accumulators" % (accel, kind, ifm_bits, acc_bits), case)
        acc_h = bh
        if spec["ofm"]["shape"][0] == 1 and spec["kernel"][1] == 1 and A["ofm_ub"][0] == 2:
            acc_h = min(bh, 1)
        acc_bytes = acc_h * bw * (-(-bd // 8) * 8) * acc_bits // 8
        g = G[hw.G_ACC[acc_bits]]
        acc_banks = -(-(2 * -(-acc_bytes // hw.SHRAM_BANK_BYTES)) // g) * g
        if lut_start - ab_start < acc_banks:
            raise Violation("C15/layout/acc", "%s %s block %s: accumulator partition [%d,%d) has %d banks, double-buffering %d-bit accumulators for the block needs %d" % (
                accel, kind, list(blk), ab_start, lut_start, lut_start - ab_start, acc_bits, acc_banks), case)


def oracle(case, rec=None):
    api = c06._api()
    accel = case["accel"]
    accel_enum = getattr(api.NpuAccelerator, hw.ACCELS[accel]["enum"])
    spec = copy.deepcopy(case["op"])
    op = c06.build_op(api, spec, accel_enum)
    try:
        cfgs = sut("C15/find_block_configs", case, api.npu_find_block_configs, op, accel_enum, allowed=(AssertionError,))
    except AssertionError:
        cfgs = []
    cfgs = [(c.height, c.width, c.depth) for c in cfgs]
    for blk in cfgs:
        check_block_shape(blk, accel, case)
    if len(set(cfgs)) != len(cfgs):
        raise Violation("C15/query/duplicates", "the query returned duplicate configurations", case)
    picks = sorted(set([0, len(cfgs) - 1] + [i % max(len(cfgs), 1) for i in case["picks"]])) if cfgs else []
    for i in picks:
        blk = cfgs[i]
        op.block_config = api.NpuShape3D(height=blk[0], width=blk[1], depth=blk[2])
        words = sut("C15/generate-with-offered-config", dict(case, block=list(blk)), api.npu_generate_register_command_stream, [op], accel_enum)
        try:
            cmds = [c for c in csdec.decode_words([int(w) for w in words]) if c.kind in ("conv", "depthwise", "pool", "elementwise")]
            f = csdec.fields(cmds[0])
        except (csdec.DecodeError, IndexError) as e:
            raise Violation("C15/undecodable", str(e), case)
        got = (f["block"]["height"], f["block"]["width"], f["block"]["depth"])
        if got != blk:
            raise Violation("C15/block/roundtrip", "configuration %s decodes back as %s" % (list(blk), list(got)), case)
        check_layout(spec, blk, f, accel, dict(case, block=list(blk)))
    if rec is not None:
        rec.cls(accel, "kind-" + spec["kind"], "configs-%s" % ("0" if not cfgs else "1" if len(cfgs) == 1 else "2+"))
        if len(cfgs) >= 2 and spec["ofm"]["shape"] != [1, 1, 1]:
            rec.nontriv(case, sample=dict(accel=accel, kind=spec["kind"], ofm=spec["ofm"]["shape"], kernel=spec.get("kernel"), configs=len(cfgs), first=list(cfgs[0]), last=list(cfgs[-1])))


def strategy():
    from hypothesis import strategies as st

    @st.composite
    def case(draw):
        accel = draw(st.sampled_from(hw.ACCEL_NAMES))
        spec = draw(st.builds(lambda: None).flatmap(lambda _: st.composite(lambda d: c06.op_strategy(d, st, accel))()).filter(lambda s: s["kind"] != "dma"))
        # widen the shape domain: OFM height 1 and 2, wide/deep maps
        how = draw(st.integers(0, 5))
        if how == 0:
            set_ofm(spec, [1, spec["ofm"]["shape"][1], spec["ofm"]["shape"][2]])
        elif how == 1:
            set_ofm(spec, [2, spec["ofm"]["shape"][1], spec["ofm"]["shape"][2]])
        elif how == 2:
            set_ofm(spec, [spec["ofm"]["shape"][0], draw(st.sampled_from([64, 65, 127, 300, 1024])), draw(st.sampled_from([8, 128, 129, 512]))])
        return dict(kind="blockquery", accel=accel, op=spec, picks=draw(st.lists(st.integers(0, 10000), min_size=8, max_size=8)))

    return case()


def set_ofm(spec, shp):
    """change the OFM shape consistently (single tile, IFM extent follows for kernel ops)"""
    for key in ("ofm", "ifm", "ifm2"):
        fm = spec.get(key)
        if fm is None:
            continue
        if key == "ofm" or spec["kind"] == "elementwise":
            new = list(shp) if key != "ifm2" else [1 if fm["shape"][i] == 1 and spec["ofm"]["shape"][i] != 1 else shp[i] for i in range(3)]
            if spec["kind"] == "pool" and spec.get("mode") == "REDUCE_SUM" and key == "ofm":
                new[2] = 1
        else:
            kw, kh, sx, sy, dx, dy = spec["kernel"]
            p = spec["padding"]
            ih = max(1, (shp[0] - 1) * sy + dy * (kh - 1) + 1 - p[0] - p[2])
            iw = max(1, (shp[1] - 1) * sx + dx * (kw - 1) + 1 - p[1] - p[3])
            if spec.get("upscale", "NONE") != "NONE":
                ih, iw = max(1, -(-ih // 2)), max(1, -(-iw // 2))
            new = [ih, iw, shp[2] if spec["kind"] in ("depthwise", "pool") and spec.get("mode") != "REDUCE_SUM" else fm["shape"][2]]
        fm["shape"] = new
        fm["tiles"] = [new[0], new[0], new[1], [fm["tiles"][3][0], 0, 0, 0]]
        fm["strides"] = None


def queries(ctx, arg, rec):
    shard, n = arg
    run_hypothesis(rec, strategy(), oracle, n, sub_seed(ctx.seed, PROPERTY, "queries", shard))


def parts(ctx):
    ps = [Part("queries%02d" % i, queries, (i, 150 if ctx.quick else 12000)) for i in range(16)]
    try:
        import props.e2e_parts as e2e

        ps += e2e.parts_for(ctx, PROPERTY)
    except ImportError:
        pass
    return ps


def replay(ctx, case):
    if "spec" in case:
        import props.e2e_parts as e2e

        return e2e.replay(ctx, PROPERTY, case)
    oracle(case, None)

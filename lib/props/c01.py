"""C01 - the compiled model computes the same function as the source model.

Differential oracle (DESIGN.md C01): tflinterp(source network, x) versus outrun(output file, x) where every ethos-u
operator is executed by npusim over the bytes of the file.  Exact comparison for exact-class networks, |d| <= 1 for
networks that end in an approximate-class operator.
"""
import math

import numpy as np

from runner import Part, Violation, sub_seed, run_hypothesis, HarnessError, jhash
import artefact
import constructs
import csdec
import e2e
import fbwrite
import npusim
import outrun
import payload
import tflgen
import tflinterp
import vmodel

PROPERTY = "C01"
RULE = (
    "generated networks (tflgen profiles: 'exact', 'cascade' = tall planes with small arena caches incl. x2 resize, 'slices' = SLICE/STRIDED_SLICE (masks, negative indices, new/shrunk axes)/"
    "SPLIT/SPLIT_V/PACK/UNPACK/TRANSPOSE/CONCAT/PAD feeding every consumer kind, 'elementwise' = every broadcast form, 'reshapes' = every operator directly before/after RESHAPE/"
    "EXPAND_DIMS/SQUEEZE, 'mixed' and 'fanout' = tensors shared between Ethos-U and CPU operators and copies that cannot be bypassed, 'convs' = kernels/strides/per-axis dilations, "
    "'int16', 'approx' = exact body + one approximate-class tail operator: padded/wide-stride average pool, LOGISTIC, TANH, HARD_SWISH, LEAKY_RELU, PRELU, ABS, EXP, LOG, SQRT, RSQRT, GELU, "
    "MEAN (ranks 2-4, any axes), RESIZE_BILINEAR, TRANSPOSE_CONV (square and rectangular)) x compiler configurations (6 accelerators x memory modes x optimise x allocators x arena cache "
    "sizes) x 3 input tensors per compilation (uniform random, extremes checkerboard, ramp); the source network is evaluated with reference kernels re-written from the TFLite "
    "definitions, the output file by walking its operators: CPU operators with the same kernels, every ethos-u operator by executing its decoded command stream over exactly the flash "
    "bytes, weights (decoded with the pinned reference decoder), scale records and tables of the file.  Every model output has its own tolerance: 0 when only exact-class operators "
    "produce it, 1 when an approximate-class operator lies upstream and only selecting/clamping operators follow it, not asserted when an arithmetic operator consumes an approximate "
    "result (the deviation may be amplified); elements for which the reference defines no value (SQRT/LOG/RSQRT outside their domain) are masked.  "
    "non-trivial = the artefact holds >=1 arithmetic NPU operation, the comparison was decided (no unmodelled feature) and the outputs differ between two of the inputs; "
    "distinct = hash(operator codes and shapes, configuration, schedule features)."
)
ASSUMPTIONS = [
    "hardware semantics of DESIGN.md section 4 (H1-H6): register layout, IFM extent derivation, weight stream order, scale records, TFL/NATURAL/TRUNCATE rounding, ADD/SUB operand scaling datapath",
    "reference kernels in lib/tflinterp.py transcribe the TFLite reference kernels (int8/uint8); MUL accepts the multiplier derived in float32 (as the C++ kernel evaluates it) or in double",
    "operators or hardware features outside the model make a case inconclusive (counted in the evidence), never a violation",
]

APPROX_CODES = {"SQUARED_DIFFERENCE", "EXP", "LOG", "SQRT", "RSQRT", "GELU", "LOGISTIC", "TANH", "HARD_SWISH", "LEAKY_RELU", "SOFTMAX", "MEAN", "RESIZE_BILINEAR", "TRANSPOSE_CONV", "ABS", "PRELU"}
# operators that select, move or clamp values (1-Lipschitz in every operand): a one-step deviation of an operand stays a one-step deviation of the result
SELECTING_CODES = {"RESHAPE", "SQUEEZE", "EXPAND_DIMS", "SLICE", "STRIDED_SLICE", "SPLIT", "SPLIT_V", "CONCATENATION", "PAD", "TRANSPOSE", "PACK", "UNPACK", "TILE", "GATHER", "MAX_POOL_2D",
                   "RELU", "RELU6", "RELU_N1_TO_1", "MAXIMUM", "MINIMUM", "RESIZE_NEAREST_NEIGHBOR"}


def make_inputs(model, seed):
    """three input sets: uniform random; checkerboard of type extremes and the zero point; low-entropy ramp"""
    sg = model["subgraphs"][0]
    rng = np.random.default_rng(seed)
    sets = [[], [], []]
    for i in sg["inputs"]:
        t = sg["tensors"][i]
        lo, hi = tflinterp.dtype_range(t["dtype"])
        n = int(np.prod(t["shape"])) if t["shape"] else 1
        sets[0].append(rng.integers(lo, hi + 1, size=t["shape"]))
        zp = int(t["zp"][0]) if t["zp"] else 0
        pal = np.array([lo, hi, zp, hi, lo, min(hi, zp + 1), max(lo, zp - 1)])
        sets[1].append(pal[(np.arange(n) * 3 + rng.integers(0, 7)) % 7].reshape(t["shape"]))
        sets[2].append((lo + (np.arange(n) // 3 + rng.integers(0, 50)) % (hi - lo + 1)).reshape(t["shape"]))
    return sets


def is_approx(spec):
    """network contains an approximate-class operator (tolerance +-1 applies): listed codes, or AVERAGE_POOL_2D with SAME padding"""
    for o in spec["ops"]:
        if o["code"] in APPROX_CODES:
            return True
        if o["code"] == "AVERAGE_POOL_2D" and (o.get("opts") or {}).get("fields", {}).get("Padding", 1) == 0:
            return True
    return False


def _approx_op(o):
    if o["code"] in APPROX_CODES:
        return True
    if o["code"] != "AVERAGE_POOL_2D":
        return False
    # average pool: approximate with padding (listed by the property) and when the stride is wider than the pooling hardware supports - the operator is then
    # replaced by a convolution whose scale only emulates the division (uint8: one step off on ties); the native unpadded pool is compared exactly
    fields = (o.get("opts") or {}).get("fields", {})
    return fields.get("Padding", 1) == 0 or fields.get("StrideW", 1) > 3 or fields.get("StrideH", 1) > 3


def output_tolerances(spec):
    """per model output: 0 (exact class), 1 (an approximate-class operator upstream, only selecting/clamping operators after it) or None (an arithmetic operator consumes
    a value that may deviate by one step: the deviation can be amplified, nothing is asserted for that output)"""
    cls = {}  # tensor -> 0 | 1 | None
    for o in spec["ops"]:
        ins = [cls.get(i, 0) for i in o["inputs"] if i is not None and i >= 0]
        worst = None if any(c is None for c in ins) else max(ins + [0])
        if _approx_op(o):
            out = 1 if worst == 0 else None
        elif o["code"] in SELECTING_CODES:
            out = worst
        else:
            out = 0 if worst == 0 else None
        for t in o["outputs"]:
            cls[t] = out
    return [cls.get(t, 0) for t in spec["outputs"]]


TOL_CAP = 40  # a propagated bound beyond this many steps says too little to be worth asserting


def dynamic_tolerances(spec, tables):
    """like output_tolerances, but a deviation that enters an 8-bit table-driven operator is bounded instead of given up: the operator is its table, so an input off by at most t
    steps moves the result by at most L(t) = max |T[x+d] - T[x]| over all codes x and |d| <= t, plus the operator's own step.  `tables` = reference tables by output tensor index."""
    cls = {}
    for o in spec["ops"]:
        ins = [cls.get(i, 0) for i in o["inputs"] if i is not None and i >= 0]
        worst = None if any(c is None for c in ins) else max(ins + [0])
        tab = tables.get(o["outputs"][0]) if len(o["outputs"]) == 1 else None
        if worst is not None and worst > 0 and tab is not None:
            t = np.asarray(tab, np.int64)
            lip = max(int(np.abs(t[d:] - t[:-d]).max()) for d in range(1, min(worst, 255) + 1))
            out = lip + 1
        elif o["code"] == "SOFTMAX" and worst is not None and worst > 0 and spec["tensors"][o["inputs"][0]]["dtype"] in ("int8", "uint8"):
            # mean value theorem: sum_j |d p_i / d x_j| = 2 p_i (1 - p_i) <= 1/2 per unit of the real input, i.e. beta * s_in per input step; output steps are 1/256
            beta = float((o.get("opts") or {}).get("fields", {}).get("Beta", 1.0))
            s_in = spec["tensors"][o["inputs"][0]]["scale"]
            s_in = float(s_in[0] if isinstance(s_in, (list, tuple)) else s_in)
            out = int(math.ceil(128.0 * abs(beta) * s_in * worst)) + 2
        elif _approx_op(o):
            out = 1 if worst == 0 else None
        elif o["code"] in SELECTING_CODES:
            out = worst
        else:
            out = 0 if worst == 0 else None
        if out is not None and out > TOL_CAP:
            out = None
        for t in o["outputs"]:
            cls[t] = out
    return [cls.get(t, 0) for t in spec["outputs"]]


def reference(src, xs):
    """-> list of admissible reference output lists (one per MUL derivation that changes anything)"""
    sg = src["subgraphs"][0]
    outs = []
    it = tflinterp.Interp(src, 0)
    v = it.run(dict(zip(sg["inputs"], xs)))
    outs.append((0, [v[i] for i in sg["outputs"]]))
    reference.loose = it.loose
    reference.tables = it.tables
    reference.masks = [it.undef.get(i) for i in sg["outputs"]]  # elements for which the reference defines no value (the same for every mode)
    if it.ambiguous:
        bits = it.ambiguous_bits
        for mode in (1, 2, 3):
            if mode & ~bits:
                continue  # that ambiguity did not occur in this network
            it2 = tflinterp.Interp(src, mode)
            v = it2.run(dict(zip(sg["inputs"], xs)))
            outs.append((mode, [v[i] for i in sg["outputs"]]))
    return outs


def compare(got, want, tols, masks=None, loose=0):
    """tols: per-output tolerance (None = nothing asserted for that output)"""
    worst = 0
    where = None
    for k, (g, w) in enumerate(zip(got, want)):
        if tols[k] is None:
            continue
        tol = max(tols[k], loose)
        g = np.asarray(g).astype(np.int64).reshape(-1)
        w = np.asarray(w).astype(np.int64).reshape(-1)
        if g.shape != w.shape:
            return 1 << 30, (k, "shape %s vs %s" % (g.shape, w.shape))
        d = np.abs(g - w)
        if masks is not None and masks[k] is not None:
            d = np.where(np.asarray(masks[k]).reshape(-1), 0, d)  # the reference defines no value there
        if d.size and d.max() > max(worst, tol):
            worst = int(d.max())
            j = int(np.argmax(d))
            where = (k, "output %d: %d of %d elements differ, worst at flat index %d: got %d want %d" % (k, int((d > tol).sum()), d.size, j, int(g[j]), int(w[j])))
    return worst, where


def arithmetic_ops(art):
    n = 0
    for nop in art.npu_ops:
        n += sum(1 for c in nop.cmds() if c.kind in ("conv", "depthwise", "pool", "elementwise"))
    return n


def oracle(case, rec=None):
    spec, cfg = case["spec"], case["cfg"]
    tags = constructs.tags(spec, cfg)
    try:
        art, res = e2e.compile_case(case)
    except (artefact.ArtefactError, vmodel.ModelError, payload.PayloadError, csdec.DecodeError) as e:
        raise Violation("C01/artefact-malformed", "%s: %s" % (type(e).__name__, e), case, tags)
    if res.get("harness"):
        raise HarnessError("harness failure: %s" % (res["exc"][3],))
    if art is None:
        if rec is not None:
            rec.cls("not-compiled")
        return
    src = vmodel.load(fbwrite.build(spec))
    tols = output_tolerances(spec)
    input_sets = make_inputs(src, case.get("input_seed", 0))
    if any(t is None for t in tols):
        # chains of table-driven activations: bound the amplification through the reference tables (needs one reference evaluation)
        try:
            reference(src, input_sets[0])
            dyn = dynamic_tolerances(spec, reference.tables)
            tols = [d if t is None else t for t, d in zip(tols, dyn)]
        except tflinterp.Unsupported:
            pass
    if all(t is None for t in tols):
        if rec is not None:
            rec.cls("compiled", "inconclusive", "inconclusive: every output lies behind an arithmetic consumer of an approximate-class result")
        return
    tol = max(t for t in tols if t is not None)
    if rec is not None:
        rec.cls("compiled", "tolerance-%d" % tol if tol <= 1 else "tolerance-propagated(2..%d)" % TOL_CAP)
        if any(t is None for t in tols):
            rec.cls("some-outputs-not-asserted(amplified approximation)")
    if not art.npu_ops:
        if rec is not None:
            rec.cls("no-npu-op")
    outs_seen = []
    decided = 0
    approx_ops = [o["code"] for o in spec["ops"] if o["code"] in APPROX_CODES]
    last_code = approx_ops[-1] if approx_ops else spec["ops"][-1]["code"]
    for k, xs in enumerate(input_sets):
        try:
            refs = reference(src, xs)
        except tflinterp.Unsupported as e:
            if rec is not None:
                rec.cls("inconclusive", "inconclusive: reference: %s" % str(e)[:60])
            return
        verdicts = []
        for mode, want, opscale in [(m, w, o) for m, w in refs for o in (2, 1)]:
            try:
                npusim.OPERAND_SCALING = opscale
                r = outrun.OutputRunner(art, mul_mode=mode)
                got = r.run(xs)
            except (tflinterp.Unsupported, npusim.Unmodelled) as e:
                if rec is not None:
                    rec.cls("inconclusive", "inconclusive: output model: %s" % str(e)[:60], "inconclusive-with-" + last_code)
                return
            except npusim.SimError as e:
                raise Violation("C01/unexecutable", "the command stream cannot be executed over the memory the file publishes: %s" % e, case, tags)
            except outrun.RunError as e:
                raise Violation("C01/unrunnable", "the output model cannot be run: %s" % e, case, tags)
            except csdec.DecodeError as e:
                raise Violation("C01/undecodable", str(e), case, tags)
            finally:
                npusim.OPERAND_SCALING = 2
            worst, where = compare(got, want, tols, getattr(reference, "masks", None), getattr(reference, "loose", 0))
            verdicts.append((worst, where, mode))
            if where is None:
                if opscale != 2 and rec is not None:
                    rec.cls("matched-only-with-single-rounding-operand-scaling")
                break
        decided += 1
        if all(w[1] is not None for w in verdicts):
            worst, where, mode = min(verdicts, key=lambda v: v[0])
            raise Violation("C01/mismatch/%s" % ("exact" if tol == 0 else "approx"),
                            "input set %d on %s: output model disagrees with the reference (tolerance %d): %s; network %s" % (
                                k, cfg["accel"], tol, where[1], [o["code"] for o in spec["ops"]]), case, tags)
        outs_seen.append(jhash([np.asarray(g).tolist() for g in got]))
    if rec is not None and decided:
        rec.cls("decided", "decided-with-" + last_code)
        feats = e2e.schedule_features(art)
        for ft in feats:
            rec.cls("feature-" + ft)
        if arithmetic_ops(art) >= 1 and len(set(outs_seen)) >= 2:
            shapes = [(o["code"], [spec["tensors"][i]["shape"] for i in o["inputs"][:1]]) for o in spec["ops"]]
            rec.nontriv([shapes, cfg, sorted(feats)], sample=dict(ops=[o["code"] for o in spec["ops"]], input_shape=spec["tensors"][spec["inputs"][0]]["shape"], dtype=spec["tensors"][spec["inputs"][0]]["dtype"],
                                                                accel=cfg["accel"], features=sorted(feats), tolerance=tol, npu_kernel_ops=arithmetic_ops(art)))


def oracle_xconfig(case, rec=None):
    """metamorphic relation (needs no reference kernel): the same source network compiled under two different compiler configurations computes the same function - bit for bit
    where only exact-class operators are involved, within the (propagated) tolerance otherwise.  Both output models are executed on the same inputs.  Reaches operators whose
    reference kernel is missing here (uint8 SQUARED_DIFFERENCE, TRANSPOSE_CONV on int16, int16 LEAKY_RELU with negative alpha ...) and everything that depends on the configuration
    (accelerator, block configurations, striping, cascading, allocator, memory mode)."""
    spec, cfg, cfg2 = case["spec"], case["cfg"], case["cfg2"]
    tags = constructs.tags(spec, cfg)
    arts = []
    for c in (cfg, cfg2):
        try:
            art, res = e2e.compile_case(dict(case, cfg=c))
        except (artefact.ArtefactError, vmodel.ModelError, payload.PayloadError, csdec.DecodeError) as e:
            raise Violation("C01/artefact-malformed", "%s: %s" % (type(e).__name__, e), case, tags)
        if res.get("harness"):
            raise HarnessError("harness failure: %s" % (res["exc"][3],))
        if art is None:
            if rec is not None:
                rec.cls("xconfig-not-compiled")
            return
        arts.append(art)
    src = vmodel.load(fbwrite.build(spec))
    tols = output_tolerances(spec)
    # two approximations of the same operator may deviate in opposite directions
    tols = [None if t is None else 2 * t for t in tols]
    if all(t is None for t in tols):
        if rec is not None:
            rec.cls("xconfig-inconclusive")
        return
    decided = 0
    outs_seen = []
    for k, xs in enumerate(make_inputs(src, case.get("input_seed", 0))):
        got = []
        try:
            for art in arts:
                got.append(outrun.OutputRunner(art, mul_mode=0).run(xs))
        except (tflinterp.Unsupported, npusim.Unmodelled) as e:
            if rec is not None:
                rec.cls("xconfig-inconclusive", "xconfig-inconclusive: %s" % str(e)[:60])
            return
        except npusim.SimError as e:
            raise Violation("C01/unexecutable", "the command stream cannot be executed over the memory the file publishes: %s" % e, case, tags)
        except outrun.RunError as e:
            raise Violation("C01/unrunnable", "the output model cannot be run: %s" % e, case, tags)
        worst, where = compare(got[0], got[1], tols)
        if where is not None:
            raise Violation("C01/xconfig-mismatch", "input set %d: the same network compiled for %s/%s/%s and for %s/%s/%s computes different results: %s; network %s" % (
                k, cfg["accel"], cfg["optimise"], cfg["memory_mode"], cfg2["accel"], cfg2["optimise"], cfg2["memory_mode"], where[1], [o["code"] for o in spec["ops"]]), case, tags)
        decided += 1
        outs_seen.append(jhash([np.asarray(g).tolist() for g in got[0]]))
    if rec is not None and decided:
        rec.cls("xconfig-decided")
        for o in spec["ops"]:
            rec.cls("xconfig-op-" + o["code"])
        if len(set(outs_seen)) >= 2 and sum(arithmetic_ops(a) for a in arts) >= 2:
            rec.nontriv(["xconfig", [o["code"] for o in spec["ops"]], cfg, cfg2], sample=dict(kind="xconfig", ops=[o["code"] for o in spec["ops"]], accel=[cfg["accel"], cfg2["accel"]],
                                                                                              optimise=[cfg["optimise"], cfg2["optimise"]]))


def xconfig_part(ctx, arg, rec):
    from hypothesis import strategies as st

    profile, shard, n = arg
    base = e2e.case_strategy(profile, max_ops=5, big=profile == "cascade", small_arena=profile == "cascade", dtypes=("int8", "int8", "uint8", "int16"))
    strat = st.builds(lambda c, c2, s: dict(c, kind="c01x", cfg2=c2, input_seed=s), base, tflgen.config(small_arena=profile == "cascade"), st.integers(0, 1 << 30))
    run_hypothesis(rec, strat, oracle_xconfig, n, sub_seed(ctx.seed, PROPERTY, "xconfig", profile, shard))


def strategy(profile, quick):
    from hypothesis import strategies as st

    if profile == "cascade":
        base = e2e.case_strategy("cascade", max_ops=5, big=True, small_arena=True, dtypes=("int8", "int8", "uint8"))
    elif profile == "reshapes":
        base = e2e.case_strategy("reshapes", max_ops=3, big=False, dtypes=("int8", "int8", "uint8"))
    elif profile == "fanout":
        base = e2e.case_strategy("fanout", max_ops=4, big=False, dtypes=("int8", "int8", "uint8"))
    elif profile == "mixed":
        base = e2e.case_strategy("mixed", max_ops=7, big=False, dtypes=("int8", "int8", "uint8"))
    elif profile == "convs":
        base = e2e.case_strategy("convs", max_ops=2, big=False, dtypes=("int8", "int8", "uint8", "int16"))
    elif profile == "exact16":
        base = e2e.case_strategy("exact16", max_ops=5, big=False, dtypes=("int16",))
    elif profile == "approx":
        base = e2e.case_strategy("approx", max_ops=4, big=False, dtypes=("int8", "int8", "uint8"))
    elif profile == "elementwise":
        base = e2e.case_strategy("elementwise", max_ops=3, big=False, dtypes=("int8", "int8", "uint8"))
    elif profile == "slices":
        base = e2e.case_strategy("slices", max_ops=5, big=False, dtypes=("int8", "int8", "uint8"))
    elif profile == "heavy":
        base = e2e.case_strategy("heavy", max_ops=4, big=False, small_arena=True, dtypes=("int8", "int8", "uint8"))
    elif profile == "head":
        base = e2e.case_strategy("head", max_ops=3, big=False, dtypes=("int8", "int8", "uint8", "int16"))
    elif profile == "approx16":
        base = e2e.case_strategy("approx", max_ops=3, big=False, dtypes=("int16",))
    elif profile == "tall":
        base = e2e.case_strategy("tall", max_ops=2, big=False, dtypes=("int8", "int8", "uint8"))
    elif profile == "lutmix":
        base = e2e.case_strategy("lutmix8", max_ops=8, big=False, dtypes=("int8", "int8", "uint8"))
    else:
        base = e2e.case_strategy("exact", max_ops=6, big=not quick, dtypes=("int8", "int8", "uint8"))
    def finish(c, s, k, to64):
        c = dict(c, kind="c01", input_seed=s)
        if profile in ("exact", "elementwise", "convs", "slices", "head") and k == 0:
            _argmax_tail(c["spec"], to64)
        return c

    return st.builds(finish, base, st.integers(0, 1 << 30), st.integers(0, 9), st.booleans())


def _argmax_tail(spec, to64):
    """ARG_MAX over the channels of the first model output (index of the first maximum) as a further output: its lowering - a depthwise convolution packing value and reversed
    index into 16 bits, a max pool across the channels, the extraction of the index - is executed by the simulator and compared exactly; int64 results stay on the CPU"""
    import copy

    t = spec["tensors"][spec["outputs"][0]]
    if t["dtype"] not in ("int8", "uint8") or len(t["shape"]) < 2 or t.get("data") is not None:
        return
    spec["tensors"] = copy.deepcopy(spec["tensors"]) + [dict(name="argmax_axis", shape=[], dtype="int32", scale=None, zp=None, data=dict(values=[len(t["shape"]) - 1]), qdim=0),
                                                      dict(name="argmax_out", shape=list(t["shape"][:-1]), dtype="int64" if to64 else "int32", scale=None, zp=None, data=None, qdim=0)]
    n = len(spec["tensors"])
    spec["ops"] = list(spec["ops"]) + [dict(code="ARG_MAX", inputs=[spec["outputs"][0], n - 2], outputs=[n - 1], opts=dict(table="ArgMaxOptions", fields=dict(OutputType=4 if to64 else 2)), version=2)]
    spec["outputs"] = list(spec["outputs"]) + [n - 1]


def part(ctx, arg, rec):
    profile, shard, n = arg
    run_hypothesis(rec, strategy(profile, ctx.quick), oracle, n, sub_seed(ctx.seed, PROPERTY, profile, shard))


def parts(ctx):
    q = ctx.quick
    ps = [Part("exact%02d" % i, part, ("exact", i, 22 if q else 700)) for i in range(10)]
    ps += [Part("cascade%02d" % i, part, ("cascade", i, 8 if q else 250)) for i in range(6)]
    ps += [Part("slices%02d" % i, part, ("slices", i, 16 if q else 500)) for i in range(6)]
    ps += [Part("elementwise%02d" % i, part, ("elementwise", i, 20 if q else 600)) for i in range(4)]
    ps += [Part("reshapes%02d" % i, part, ("reshapes", i, 20 if q else 600)) for i in range(4)]
    ps += [Part("mixed%02d" % i, part, ("mixed", i, 16 if q else 500)) for i in range(4)]
    ps += [Part("fanout%02d" % i, part, ("fanout", i, 16 if q else 500)) for i in range(4)]
    ps += [Part("convs%02d" % i, part, ("convs", i, 25 if q else 700)) for i in range(4)]
    ps += [Part("int16-%02d" % i, part, ("exact16", i, 20 if q else 600)) for i in range(4)]
    ps += [Part("approx%02d" % i, part, ("approx", i, 20 if q else 600)) for i in range(4)]
    ps += [Part("lutmix%02d" % i, part, ("lutmix", i, 14 if q else 400)) for i in range(2)]
    ps += [Part("tall%02d" % i, part, ("tall", i, 10 if q else 300)) for i in range(2)]
    ps += [Part("head%02d" % i, part, ("head", i, 16 if q else 400)) for i in range(1)]
    ps += [Part("heavy%02d" % i, part, ("heavy", i, 10 if q else 300)) for i in range(1)]
    ps += [Part("xconfig-%s" % p, xconfig_part, (p, 0, 10 if q else 400)) for p in ("npu", "cascade", "wide")]
    ps += [Part("approx16-%02d" % i, part, ("approx16", i, 30 if q else 500)) for i in range(2)]
    return ps


def replay(ctx, case):
    if case.get("kind") == "c01x":
        oracle_xconfig(case, None)
    else:
        oracle(case, None)

"""C03 - no NPU operation consumes memory that was not defined for it.

Tagged execution of the decoded command streams of generated compiled networks (DESIGN.md C03 oracle 1) plus a poison
differential through the arithmetic simulator (oracle 2).  Tags are kept per byte of every region: last writer, identity of
the tensor the writer produced (equivalence id from labels captured next to the register generator) and, for feature maps,
the logical row held by the byte.
"""
import numpy as np

from runner import Part, Violation, sub_seed, run_hypothesis, HarnessError
import artefact
import constructs
import csdec
import e2e
import fbwrite
import footprint as fpm
import hw
import npusim
import outrun
import payload
import tflinterp
import vmodel

PROPERTY = "C03"
RULE = (
    "generated networks (tflgen 'npu' and 'cascade' profiles: all NPU-placeable operators, LUT activations, tall planes) x compiler configurations biased to small arena caches, "
    "Dedicated_Sram, Size optimisation; every command stream of the output file is walked in program order with per-byte tags (writer, tensor identity, logical row) in arena, "
    "fast scratch and SHRAM; model inputs and CPU operator outputs define their metadata ranges; every byte of the exact IFM/IFM2/weight/scale/LUT/DMA-source footprint of every "
    "operation must have been written in this inference (uninitialised), by a producer of the tensor the operand is (foreign), holding the row the operand box names (stale rolling "
    "buffer rows), weights/LUTs by the DMA of that very tensor and box.  Poison differential: exact-class networks are executed twice by the arithmetic simulator with different "
    "fill bytes in every undefined location; outputs must be identical.  "
    "non-trivial = artefact with >=2 NPU operations of which a later one reads what an earlier one wrote, plus at least one of {rolling buffer with wrap-around (tiles), weight "
    "buffer written >=2 times, LUT in SHRAM, arena bytes re-used by a second tensor}; distinct = hash(network, configuration, feature set)."
)
ASSUMPTIONS = [
    "footprints are element-exact (H2); bytes of NHCWB16 bricks beyond the programmed depth are neither defined by a write nor counted as consumed by a read",
    "tensor identities come from labels captured beside the register generator (equivalence ids, boxes); a label that does not fit the decoded registers disables the identity/row rules for that operand (counted), never the uninitialised-read rule which needs no labels",
    "row rule only when producer and consumer agree on the full tensor shape (no reshape view, no up-scaling, no broadcast)",
]

NONE, INPUT, CPU, CONST = -1, -2, -3, -4


class Tags:
    def __init__(self, sizes):
        self.writer = {r: np.full(n, NONE, np.int32) for r, n in sizes.items()}
        self.ident = {r: np.zeros(n, np.int32) for r, n in sizes.items()}
        self.row = {r: np.full(n, -1, np.int32) for r, n in sizes.items()}
        self.ids = {}

    def id_of(self, eq):
        if eq is None:
            return 0
        return self.ids.setdefault(eq, len(self.ids) + 1)


def elem_bytes(addr, esz):
    """element start addresses -> all byte addresses"""
    a = addr.reshape(-1)
    if esz == 1:
        return a
    return (a[:, None] + np.arange(esz)[None, :]).reshape(-1)


def intervals_to_idx(iv):
    return np.concatenate([np.arange(s, e) for s, e in iv]) if iv else np.zeros(0, np.int64)


def check_case(case, rec=None, compiled=None):
    """compiled = (Artefact, compile result with labels) lets another property (C10 part B) reuse the walk; violations on an operand that is a cascade rolling
    buffer carry the extra tag 'ifm-rolling-buffer'"""
    tags_c = constructs.tags(case["spec"], case["cfg"])
    try:
        art, res = compiled if compiled is not None else e2e.compile_case(case, capture=True)
    except (artefact.ArtefactError, vmodel.ModelError, payload.PayloadError, csdec.DecodeError) as e:
        raise Violation("C03/artefact-malformed", "%s: %s" % (type(e).__name__, e), case, tags_c)
    if res.get("harness"):
        raise HarnessError("harness failure: %s" % (res["exc"][3],))
    if art is None or not art.npu_ops:
        if rec is not None:
            rec.cls("not-compiled" if art is None else "no-npu-op")
        return
    accel = art.accel
    tags_base = tags_c
    labels_per_stream = [cap["ops"] for cap in res["captured"]]
    arena = max([art.arena_size()] + [art.nbytes(n.scratch_i) for n in art.npu_ops] + [1])
    fast = max([art.nbytes(n.fast_i) for n in art.npu_ops] + [1])
    T = Tags({1: arena, 2: fast, csdec.SHRAM_REGION: hw.ACCELS[accel]["banks"] * 1024})
    feats = set()
    stats = dict(reads=0, identity_checked=0, row_checked=0, label_misfit=0)

    def define(tidx, code):
        o = art.offset(tidx)
        if o is None or o < 0 or art.tensors[tidx]["data"] is not None:
            return
        n = art.nbytes(tidx)
        T.writer[1][o: o + n] = code
        T.ident[1][o: o + n] = 0
        T.row[1][o: o + n] = -1

    for i in art.sg["inputs"]:
        define(i, INPUT)
    for i, t in enumerate(art.tensors):
        if t.get("is_variable"):
            define(i, INPUT)  # state tensors (LSTM): cleared by the runtime before the first inference, then carried from one inference to the next - defined whenever they are read
    nops = {n.index: n for n in art.npu_ops}
    stream_no = 0
    gidx = 0  # global operation index over all streams
    infos = {}
    for oi, o in enumerate(art.sg["ops"]):
        if oi not in nops:
            for t in o["outputs"]:
                define(t, CPU)
            continue
        nop = nops[oi]
        labels = labels_per_stream[stream_no] if stream_no < len(labels_per_stream) else []
        stream_no += 1
        try:
            cmds = [c for c in nop.cmds() if c.kind in ("conv", "depthwise", "pool", "elementwise", "dma")]
        except (csdec.DecodeError, payload.PayloadError) as e:
            raise Violation("C03/undecodable", str(e), case, tags_c)
        use_labels = len(labels) == len(cmds)
        if not use_labels:
            stats["label_misfit"] += len(cmds)
        flash_len = len(nop.flash)
        lut_content = {}
        # content of every table by the equivalence id of its SHRAM tensor (from all table DMAs of this stream, also later ones: an operation whose first stripe re-uses a
        # resident table and whose later stripes copy it again has its DMAs *after* the first use)
        lut_content_all = {}
        if use_labels:
            for k2, c2 in enumerate(cmds):
                if c2.kind == "dma":
                    f2 = csdec.fields(c2)
                    if f2["dst_region"] & 0x100 and f2["src_region"] == 0 and labels[k2].get("out_eq"):
                        lut_content_all[labels[k2]["out_eq"]] = hash(bytes(nop.flash[f2["src"]: f2["src"] + f2["length"]]))
        for k, c in enumerate(cmds):
            f = csdec.fields(c)
            lab = labels[k] if use_labels else {}
            gidx += 1
            me = gidx
            infos[me] = (stream_no - 1, k, c.kind, lab.get("op_name") or lab.get("out_tensor"))

            def where():
                return "stream %d op #%d (%s %s)" % (stream_no - 1, k, c.kind, lab.get("op_name") or "")

            def need_defined(region, idx, what):
                """oracle 1: every byte read was written in this inference"""
                if region == 0:
                    if idx.size and (idx.min() < 0 or idx.max() >= flash_len):
                        raise Violation("C03/outside-flash", "%s reads %s bytes [%d,%d] beyond the %d-byte flash tensor" % (where(), what, idx.min(), idx.max(), flash_len), case, tags_c)
                    return None
                if region not in T.writer:
                    raise Violation("C03/unknown-region", "%s reads %s from region %s" % (where(), what, region), case, tags_c)
                w = T.writer[region]
                if idx.size and (idx.min() < 0 or idx.max() >= len(w)):
                    raise Violation("C03/outside-region", "%s reads %s bytes up to %d of region %d which has %d bytes" % (where(), what, idx.max(), region, len(w)), case, tags_c)
                wr = w[idx]
                stats["reads"] += int(idx.size)
                bad = np.nonzero(wr == NONE)[0]
                if bad.size:
                    raise Violation("C03/uninitialised/%s" % what, "%s reads %d %s byte(s) of region %s that nothing has written in this inference, first at address %d" % (
                        where(), bad.size, what, region, int(idx[bad[0]])), case, tags_c)
                return wr

            if c.kind == "dma":
                sr = f["src_region"]
                dr = csdec.SHRAM_REGION if f["dst_region"] & 0x100 else f["dst_region"]
                sidx = np.arange(f["src"], f["src"] + f["length"])
                # a copy does not consume what it moves (storage rounding makes copies longer than the tensor): undefined source bytes stay undefined at
                # the destination and are reported if an operation ever reads them there
                undefined_src = None
                if sr == 0:
                    need_defined(sr, sidx, "dma-source")
                else:
                    if sr not in T.writer or (sidx.size and sidx.max() >= len(T.writer[sr])):
                        raise Violation("C03/outside-region", "%s copies from bytes up to %d of region %s" % (where(), int(sidx.max()), sr), case, tags_c)
                    undefined_src = T.writer[sr][sidx] == NONE
                    stats["reads"] += int(sidx.size)
                if dr not in T.writer:
                    raise Violation("C03/unknown-region", "%s writes region %s" % (where(), dr), case, tags_c)
                if f["dst"] + f["length"] > len(T.writer[dr]):
                    raise Violation("C03/outside-region", "%s writes up to byte %d of region %s (%d bytes)" % (where(), f["dst"] + f["length"], dr, len(T.writer[dr])), case, tags_c)
                sl = slice(f["dst"], f["dst"] + f["length"])
                prev = T.writer[dr][sl]
                if np.any((prev > 0)):
                    pw = set(int(v) for v in np.unique(prev[prev > 0]))
                    if any(infos[p][2] == "dma" for p in pw):
                        feats.add("buffer-rewritten")
                T.writer[dr][sl] = me
                T.ident[dr][sl] = T.id_of(lab.get("out_eq"))
                T.row[dr][sl] = -1
                if undefined_src is not None and undefined_src.any():
                    T.writer[dr][f["dst"] + np.nonzero(undefined_src)[0]] = NONE
                    if rec is not None:
                        rec.cls("dma-moves-undefined-padding")
                # table identity is decided by content: the labels carry the tensor's equivalence id as it is at the END of the compilation, and a table that is found
                # resident for one stripe and placed again for the next gets a new id in between
                content = hash(bytes(nop.flash[f["src"]: f["src"] + f["length"]])) if sr == 0 and dr == csdec.SHRAM_REGION else None
                infos[me] = infos[me] + (lab.get("out_tensor"), lab.get("box"), lab.get("out_eq"), content)
                if content is not None and lab.get("out_eq"):
                    lut_content[lab["out_eq"]] = content
                if dr == csdec.SHRAM_REGION:
                    feats.add("lut")
                continue

            # ---- kernel operation: reads ------------------------------------------------------------------
            ih, iw = fpm.ifm_extent(f)
            operands = [("ifm", f["ifm"], (ih, iw, f["ifm"]["depth"]), lab.get("ifm_eq"), lab.get("ifm_box"), lab.get("ifm_full_shape"))]
            if c.kind == "elementwise" and "ifm2" in f and "base" in f["ifm2"]:
                bc = f["broadcast"]
                o_ = f["ofm"]
                shape2 = (1 if bc["h"] else o_["height"], 1 if bc["w"] else o_["width"], 1 if bc["c"] else o_["depth"])
                operands.append(("ifm2", f["ifm2"], shape2, lab.get("ifm2_eq"), lab.get("ifm2_box"), None))
            rev = bool(f.get("broadcast", {}).get("reverse")) if c.kind == "elementwise" else False
            for what, fm, shape, eq, box, full in operands:
                tags_c = tags_base + (("ifm-rolling-buffer",) if (what == "ifm" and lab.get("ifm_sub_purpose") == "RollingBufferY") else ())
                if shape[0] <= 0 or shape[1] <= 0:
                    raise Violation("C03/empty-read", "%s derives an empty %s extent %s" % (where(), what, shape), case, tags_c)
                addr = npusim.fm_addresses(fm, *shape)
                esz = fm["bits"] // 8
                idx = elem_bytes(addr, esz)
                wr = need_defined(fm["region"], idx, what)
                if wr is None or not use_labels or eq is None:
                    continue
                if fm["region"] not in T.ident:
                    continue
                # oracle 2: identity.  Only bytes written by NPU operations carry comparable identities
                npu_written = wr > 0
                if np.any(npu_written):
                    want = T.id_of(eq)
                    # labels name the operands in Vela's IFM/IFM2 order, which is also the register order (the reverse bit only swaps the arithmetic)
                    got = T.ident[fm["region"]][idx][npu_written]
                    stats["identity_checked"] += int(npu_written.sum())
                    bad = np.nonzero((got != want) & (got != 0))[0]
                    if bad.size:
                        j = np.nonzero(npu_written)[0][bad[0]]
                        w_op = int(wr[j])
                        # the other operand's identity is accepted too when the two operands were exchanged between capture and emission
                        other = [T.id_of(o2[3]) for o2 in operands if o2[0] != what and o2[3] is not None]
                        if not (other and np.all(np.isin(got[bad], other))):
                            raise Violation("C03/foreign/%s" % what, "%s reads %s bytes (e.g. address %d of region %s) last written by operation %s as a different tensor than the operand (%d byte(s))" % (
                                where(), what, int(idx[j]), fm["region"], infos.get(w_op), bad.size), case, tags_c)
                # oracle 3: rows
                if what == "ifm" and box and full and f.get("upscale", 0) == 0 and c.kind != "elementwise" and lab.get("padding") != "TILE":  # TILE: edges replicated through tiles, rows shift
                    y0 = box[0][1]
                    rows_expected = (y0 + np.arange(shape[0]))[:, None, None] + np.zeros(addr.shape, np.int64)
                    rows_expected = np.repeat(rows_expected.reshape(-1), esz)
                    got_rows = T.row[fm["region"]][idx]
                    got_full = T.ident[fm["region"]][idx]
                    cmp = (got_rows >= 0) & npu_written & (got_full == T.id_of(eq))
                    # the writer's full shape must be the reader's (no reshape view)
                    if np.any(cmp):
                        wops = np.unique(wr[cmp])
                        ok_w = [w_ for w_ in wops if infos.get(int(w_)) and len(infos[int(w_)]) > 4 and infos[int(w_)][4] == full]
                        sel = cmp & np.isin(wr, ok_w)
                        stats["row_checked"] += int(sel.sum())
                        bad = np.nonzero(sel & (got_rows != rows_expected))[0]
                        if bad.size:
                            j = bad[0]
                            raise Violation("C03/stale-row", "%s reads row %d of its IFM at address %d of region %s, but the byte holds row %d written by operation %s (%d byte(s) stale)" % (
                                where(), int(rows_expected[j]), int(idx[j]), fm["region"], int(got_rows[j]), infos.get(int(wr[j])), bad.size), case, tags_c)
            tags_c = tags_base
            # weights / scales
            for key in ("weights", "scales"):
                if key not in f:
                    continue
                for core, (b, ln) in enumerate(zip(f[key]["base"], f[key]["length"])):
                    if b is None or not ln:
                        continue
                    idx = np.arange(b, b + ln)
                    wr = need_defined(f[key]["region"], idx, key)
                    if wr is None:
                        continue
                    w_ops = set(int(v) for v in np.unique(wr))
                    if any(w_ <= 0 or infos[w_][2] != "dma" for w_ in w_ops):
                        raise Violation("C03/foreign/%s" % key, "%s reads %s from region %s bytes that were last written by %s, not by a DMA" % (
                            where(), key, f[key]["region"], [infos.get(w_, w_) for w_ in w_ops]), case, tags_c)
                    if use_labels and key == "weights" and lab.get("weight_tensor") and lab.get("weight_box") is not None:
                        for w_ in w_ops:
                            inf = infos[w_]
                            if len(inf) >= 6 and inf[4] is not None and (inf[4] != lab["weight_tensor"] and inf[4] != lab.get("scale_tensor")):
                                raise Violation("C03/foreign/weights", "%s uses weight buffer %s but the bytes were copied by %s into %s" % (where(), lab["weight_tensor"], inf[:4], inf[4]), case, tags_c)
                            if len(inf) >= 6 and inf[4] == lab["weight_tensor"] and inf[5] is not None and inf[5] != lab["weight_box"]:
                                raise Violation("C03/stale-weights", "%s needs weight box %s but the buffer holds box %s copied by %s" % (where(), lab["weight_box"], inf[5], inf[:4]), case, tags_c)
                        if len(w_ops) >= 1 and f[key]["region"] != 0:
                            feats.add("buffered-weights")
            lb = fpm.lut_bytes(f, accel)
            if lb:
                idx = np.arange(lb[0], lb[1])
                wr = need_defined(csdec.SHRAM_REGION, idx, "lut")
                w_ops = set(int(v) for v in np.unique(wr))
                if any(w_ <= 0 or infos[w_][2] != "dma" for w_ in w_ops):
                    raise Violation("C03/foreign/lut", "%s looks up a table whose SHRAM bytes were last written by %s" % (where(), [infos.get(w_, w_) for w_ in w_ops]), case, tags_c)
                if use_labels and lab.get("lut_eq"):
                    for w_ in w_ops:
                        inf = infos[w_]
                        if len(inf) >= 8 and inf[7] is not None and inf[7] == lut_content_all.get(lab["lut_eq"]):
                            continue  # another copy of the very same table (bytes of the constants tensor): a legitimate re-use
                        if len(inf) >= 7 and inf[6] is not None and inf[6] != lab["lut_eq"]:
                            raise Violation("C03/stale-lut", "%s looks up table %s but the slot holds the table copied by %s" % (where(), lab["lut_eq"], inf[:5]), case, tags_c)
                feats.add("lut")
            # ---- writes -----------------------------------------------------------------------------------
            o_ = f["ofm"]
            addr = npusim.fm_addresses(o_, o_["height"], o_["width"], o_["depth"])
            esz = o_["bits"] // 8
            idx = elem_bytes(addr, esz)
            reg = o_["region"]
            if reg not in T.writer:
                raise Violation("C03/unknown-region", "%s writes region %s" % (where(), reg), case, tags_c)
            if idx.size and (idx.min() < 0 or idx.max() >= len(T.writer[reg])):
                raise Violation("C03/outside-region", "%s writes byte %d of region %s (%d bytes)" % (where(), idx.max(), reg, len(T.writer[reg])), case, tags_c)
            my_id = T.id_of(lab.get("ofm_eq")) if use_labels else 0
            prev_id = T.ident[reg][idx]
            prev_w = T.writer[reg][idx]
            if np.any((prev_w != NONE) & (prev_id != my_id)):
                feats.add("address-reuse")
            if o_["base"][2] not in (0, o_["base"][0]) and o_["height0"] < o_["height"]:
                feats.add("rolling-wrap")
            if f["ifm"]["base"][2] not in (0, f["ifm"]["base"][0]) and f["ifm"]["height0"] < ih:
                feats.add("rolling-wrap")
            T.writer[reg][idx] = me
            T.ident[reg][idx] = my_id
            box = lab.get("ofm_box") if use_labels else None
            if box and lab.get("ofm_stride_multiplier", [1, 1, 1]) != [1, 1, 1]:
                box = None  # interleaved writes (half-pixel x2 RESIZE_BILINEAR: four operators write every second row/column): the box is in the operator's own coordinates, rows unknown
            if box:
                rows = (box[0][1] + np.arange(o_["height"]))[:, None, None] + np.zeros(addr.shape, np.int64)
                T.row[reg][idx] = np.repeat(rows.reshape(-1), esz)
            else:
                T.row[reg][idx] = -1
            infos[me] = infos[me] + (lab.get("ofm_full_shape"),)
            # H9: a kernel operation may use every SHRAM bank below the LUT area it respects
            lim = hw.lut_start_bank(accel, lb is not None) * hw.SHRAM_BANK_BYTES
            sh = T.writer[csdec.SHRAM_REGION]
            sh[:lim] = NONE
        # what this ethos-u operator hands back: every byte of its output tensors must have been written by the stream, all by producers of one and the
        # same tensor (a weight buffer or another feature map written over part of an output is the same defect as a foreign read, seen from the host side)
        # the same holds for the state tensors the operator updates in place (LSTM): what the next inference will read as its initial state must be the state this
        # stream wrote (or left alone), not another tensor that was placed on top of it after its last update
        state = [t for t in nop.inputs if t >= 0 and art.tensors[t].get("is_variable") and art.tensors[t]["data"] is None]
        for t in list(nop.outputs) + state:
            o = art.offset(t)
            if o is None or o < 0:
                continue
            sl = slice(o, o + art.nbytes(t))
            wr, idn = T.writer[1][sl], T.ident[1][sl]
            if np.any(wr == NONE) and t not in state:
                raise Violation("C03/output-undefined", "ethos-u operator %d returns tensor %s with %d byte(s) nothing wrote" % (nop.index, art.tensors[t]["name"], int((wr == NONE).sum())), case, tags_c)
            if use_labels:
                ids = set(int(v) for v in np.unique(idn[wr > 0]))
                if len(ids) > 1:
                    last = int(wr[np.nonzero(idn != np.bincount(idn[wr > 0]).argmax())[0][0]])
                    raise Violation("C03/output-clobbered" if t not in state else "C03/state-clobbered", "ethos-u operator %d returns tensor %s whose bytes were last written as %d different tensors, e.g. by %s" % (
                        nop.index, art.tensors[t]["name"], len(ids), infos.get(last)), case, tags_c)
    if rec is not None:
        rec.cls("walked")
        for ft in feats:
            rec.cls("feature-" + ft)
        if stats["label_misfit"]:
            rec.cls("labels-unavailable")
        if gidx >= 2 and stats["identity_checked"] > 0 and feats & {"rolling-wrap", "buffer-rewritten", "lut", "address-reuse", "buffered-weights"}:
            rec.nontriv([[o["code"] for o in case["spec"]["ops"]], [t["shape"] for t in case["spec"]["tensors"][:1]], case["cfg"], sorted(feats)],
                        sample=dict(ops=[o["code"] for o in case["spec"]["ops"]], accel=accel, npu_operations=gidx, features=sorted(feats), bytes_read=stats["reads"],
                                    identity_checked=stats["identity_checked"], row_checked=stats["row_checked"]))
    return art


def poison_case(case, rec=None):
    """oracle 2: outputs of the simulated inference must not depend on the contents of undefined memory"""
    tags_c = constructs.tags(case["spec"], case["cfg"])
    art, res = e2e.compile_case(case)
    if res.get("harness"):
        raise HarnessError("harness failure: %s" % (res["exc"][3],))
    if art is None or not art.npu_ops:
        return
    src = vmodel.load(fbwrite.build(case["spec"]))
    from props import c01

    xs = c01.make_inputs(src, case.get("input_seed", 0))[0]
    outs = []
    for fill in (0xCD, 0x32, 0x00):
        try:
            r = outrun.OutputRunner(art, fill=fill)
            outs.append([np.asarray(g).tobytes() for g in r.run(xs)])
        except (tflinterp.Unsupported, npusim.Unmodelled) as e:
            if rec is not None:
                rec.cls("poison-inconclusive: %s" % str(e)[:50])
            return
        except (npusim.SimError, outrun.RunError) as e:
            raise Violation("C03/poison/unexecutable", str(e), case, tags_c)
    if outs[0] != outs[1] or outs[0] != outs[2]:
        raise Violation("C03/poison/output-depends-on-undefined-memory", "outputs differ between runs whose only difference is the fill byte of memory nothing had written (0xCD / 0x32 / 0x00); network %s on %s" % (
            [o["code"] for o in case["spec"]["ops"]], case["cfg"]["accel"]), case, tags_c)
    if rec is not None:
        rec.cls("poison-decided")
        feats = e2e.schedule_features(art)
        if len(feats) >= 1:
            rec.nontriv(["poison", [o["code"] for o in case["spec"]["ops"]], case["cfg"]], sample=dict(kind="poison", ops=[o["code"] for o in case["spec"]["ops"]], accel=case["cfg"]["accel"], features=sorted(feats)))


def oracle(case, rec=None):
    if case.get("kind") == "c03-poison":
        poison_case(case, rec)
    else:
        check_case(case, rec)


def tagged(ctx, arg, rec):
    from hypothesis import strategies as st

    profile, shard, n = arg
    lut = profile in ("luts", "lutmix")
    base = e2e.case_strategy(profile, max_ops=6 if not lut else 14, big=not lut, small_arena=True, dtypes=None if not lut else ("int8", "int8", "uint8", "int16"))
    run_hypothesis(rec, st.builds(lambda c: dict(c, kind="c03"), base), oracle, n, sub_seed(ctx.seed, PROPERTY, profile, shard))


def poison(ctx, arg, rec):
    from hypothesis import strategies as st

    profile, shard, n = arg
    base = e2e.case_strategy(profile, max_ops=5, big=True, small_arena=True, dtypes=("int8", "int8", "uint8"))
    run_hypothesis(rec, st.builds(lambda c, s: dict(c, kind="c03-poison", input_seed=s), base, st.integers(0, 1 << 30)), oracle, n, sub_seed(ctx.seed, PROPERTY, "poison", profile, shard))


def parts(ctx):
    q = ctx.quick
    ps = [Part("tagged-npu%02d" % i, tagged, ("npu", i, 22 if q else 700)) for i in range(8)]
    ps += [Part("tagged-cascade%02d" % i, tagged, ("cascade", i, 10 if q else 300)) for i in range(4)]
    ps += [Part("tagged-luts%02d" % i, tagged, ("luts", i, 10 if q else 300)) for i in range(2)]
    ps += [Part("tagged-lutmix%02d" % i, tagged, ("lutmix", i, 12 if q else 300)) for i in range(2)]
    ps += [Part("tagged-heavy%02d" % i, tagged, ("heavy", i, 14 if q else 300)) for i in range(2)]
    ps += [Part("tagged-fanout%02d" % i, tagged, ("fanout", i, 16 if q else 500)) for i in range(4)]
    # several network inputs, CPU operators between Ethos-U operators, tensors read again later: inputs and CPU results must survive until their last reader
    ps += [Part("tagged-residual%02d" % i, tagged, ("residual", i, 16 if q else 500)) for i in range(4)]
    ps += [Part("tagged-rnn%02d" % i, tagged, ("rnn", i, 10 if q else 300)) for i in range(2)]
    ps += [Part("poison-fanout%02d" % i, poison, ("fanout", i, 8 if q else 300)) for i in range(2)]
    ps += [Part("poison%02d" % i, poison, (["cascade", "exact", "slices", "mixed", "approx", "convs"][i % 6], i, 8 if q else 300)) for i in range(6)]
    return ps


def replay(ctx, case):
    oracle(case, None)

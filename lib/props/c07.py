"""C07 - weight compression is lossless, hardware-ordered and memory-safe."""
import itertools
import os
import subprocess
import tempfile

from runner import Part, Violation, sub_seed, run_hypothesis, sut, HarnessError, VERIF
import extbuild
import hw
import velaenv
import wref

PROPERTY = "C07"
RULE = (
    "(i) exhaustive: every weight sequence of length <=L over {-2..2} (L=5 quick, 7 thorough) and length <=3 over {-255,-128,-1,0,1,127,255}; "
    "(ii) Hypothesis streams drawn per coding mode (<=32 distinct values, 33-64 concentrated, uniform wide, zero runs, all zeros, piecewise sources forcing "
    "palette restarts, +-255 extremes, offsets away from zero, lengths to 70000 so that slices exceed 32767) through mlw_codec.encode; "
    "(iii) OHWI volumes (O,I 1..70, kernels to 16x16) x 6 accelerators x ifm bits x block depth x depthwise x traversal x dilation, contiguous and strided "
    "views, through api.npu_encode_weights, decoded with the pinned reference decoder and compared with an independent traversal model; "
    "(iv) out-of-range weights must raise; (v) libFuzzer (ASan+UBSan, with and without -DNDEBUG) over a structured decoding of fuzz bytes with the round-trip "
    "oracle inside the target. non-trivial = stream with >=2 slices, zero-run mode, uncompressed mode, a palette, or a volume needing depth/kernel padding; "
    "distinct = (first-slice header class, length class, configuration) + value hash."
)
ASSUMPTIONS = [
    "the pinned copy vendor/mlw_decode.c is the hardware's stream decoder; the traversal model lib/wref.py is the hardware order (DESIGN.md App. A)",
    "valid weights are -255..255 (sign-magnitude 9 bit); anything else must be rejected with an exception",
    "sequences have >=1 weight: mlw_encode's contract excludes the empty buffer (mlw_reorder_encode never passes one); encode([]) is undefined "
    "behaviour in the C code (observed: heap overflow in search_palette_sections) and is recorded in DESIGN.md as an observation, not asserted",
]


def _codec():
    velaenv.init()
    from ethosu import mlw_codec

    return mlw_codec


def _classify(data, n):
    h = wref.first_slice_header(data)
    cl = []
    if n > 32768:
        cl.append("multi-slice")
    if h["zdiv"] != 6:
        cl.append("zero-run")
    if h["wdiv"] == 7:
        cl.append("uncompressed")
    if h["palsize"] > 0:
        cl.append("palette")
    else:
        cl.append("direct-only")
    return cl


def check_stream(case, rec=None, values=None):
    codec = _codec()
    vals = values if values is not None else expand_stream(case)
    data = sut("C07/encode", case, codec.encode, list(vals))
    data = bytes(data)
    if len(data) % 16 or (len(data) == 0 and len(vals) > 0):
        raise Violation("C07/stream/length", "%d values -> stream of %d bytes (must be a non-empty multiple of 16)" % (len(vals), len(data)), case)
    import numpy as np

    try:
        dec = extbuild.ref_decoder()(data)
    except ValueError as e:
        raise Violation("C07/stream/undecodable", "reference decoder: %s" % e, case)
    src = np.asarray(vals, np.int64)
    if len(dec) < len(src) or not np.array_equal(dec[: len(src)], src):
        k = int(np.nonzero(dec[: len(src)] != src[: len(dec)])[0][0]) if len(dec) >= len(src) else len(dec)
        raise Violation("C07/stream/roundtrip", "%d values: decoded stream differs at index %d (source %s, decoded %s)" % (
            len(src), k, src[k:k + 4].tolist(), dec[k:k + 4].tolist()), case)
    if np.any(dec[len(src):] != 0):
        raise Violation("C07/stream/padding", "non-zero values after the source weights", case)
    own = sut("C07/decode", case, codec.decode, bytearray(data))
    if list(own)[: len(src)] != src.tolist():
        raise Violation("C07/stream/own-decoder", "repository decoder disagrees with the reference decoder", case)
    if rec is not None and len(vals):
        cl = _classify(data, len(vals))
        rec.cls(*cl)
        if cl != ["direct-only"] or len(set(vals)) > 1:
            import hashlib

            rec.nontriv("%s:%d:%s" % (",".join(cl), len(vals), hashlib.sha1(src.tobytes()).hexdigest()[:12]),
                        sample=dict(case if len(str(case)) < 600 else dict(kind=case.get("kind"), n=len(vals)), classes=cl, stream_bytes=len(data)))


def expand_stream(case):
    """case -> list of ints.  kinds: 'seq' explicit values; 'gen' generated from (dist, n, params, seed)"""
    import numpy as np

    if case["kind"] == "seq":
        return list(case["values"])
    rng = np.random.default_rng(case["seed"])
    n, dist = case["n"], case["dist"]
    a, b = case.get("a", 0), case.get("b", 1)
    if dist == "few":  # <= 32 distinct values
        alpha = rng.integers(-255, 256, size=max(1, min(32, b)))
        v = rng.choice(alpha, size=n)
    elif dist == "mid":  # 33..64 distinct, concentrated
        alpha = rng.integers(-80, 81, size=33 + b % 32)
        p = np.exp(-np.arange(len(alpha)) / 6.0)
        v = rng.choice(alpha, size=n, p=p / p.sum())
    elif dist == "wide":
        v = rng.integers(-255, 256, size=n)
    elif dist == "zeros":
        v = np.where(rng.random(n) < 0.25 + (b % 60) / 100.0, 0, rng.integers(-40, 41, size=n))
        runs = rng.integers(0, max(1, n), size=max(1, n // 50))
        for r in runs:
            v[r:r + int(rng.integers(1, 300))] = 0
    elif dist == "allzero":
        v = np.zeros(n, np.int64)
    elif dist == "piecewise":
        v = np.zeros(n, np.int64)
        pos = 0
        while pos < n:
            ln = int(rng.integers(1, max(2, n // 3 + 1)))
            kind = int(rng.integers(0, 4))
            seg = [rng.integers(-3, 4, size=ln), rng.integers(-255, 256, size=ln), np.where(rng.random(ln) < 0.7, 0, rng.integers(-20, 21, size=ln)),
                   rng.choice(np.array([17, -17, 33, 250, -250]), size=ln)][kind]
            v[pos:pos + ln] = seg[: n - pos]
            pos += ln
    elif dist == "extreme":
        v = rng.choice(np.array([-255, 255, -254, 254, 0]), size=n)
    elif dist == "offset":  # all magnitudes >= a (direct offset / palette of large values), optionally with zeros
        mag = rng.integers(max(1, a), min(255, max(1, a) + 1 + b) + 1, size=n)
        v = mag * rng.choice(np.array([-1, 1]), size=n)
        if case.get("z"):
            v = np.where(rng.random(n) < 0.3, 0, v)
    else:
        raise AssertionError(dist)
    return [int(x) for x in v]


def stream_strategy():
    from hypothesis import strategies as st

    n = st.one_of(st.integers(1, 40), st.integers(1, 600), st.integers(1, 6000), st.sampled_from([32767, 32768, 32769, 65536, 65537, 70000]))
    return st.one_of(
        st.lists(st.integers(-255, 255), min_size=1, max_size=40).map(lambda v: dict(kind="seq", values=v)),
        st.builds(lambda n, d, a, b, z, s: dict(kind="gen", n=n, dist=d, a=a, b=b, z=z, seed=s), n,
                  st.sampled_from(["few", "mid", "wide", "zeros", "allzero", "piecewise", "extreme", "offset", "offset"]),
                  st.integers(0, 255), st.integers(0, 255), st.booleans(), st.integers(0, 1 << 30)),
    )


def streams(ctx, arg, rec):
    shard, n = arg
    run_hypothesis(rec, stream_strategy(), check_stream, n, sub_seed(ctx.seed, PROPERTY, "streams", shard))


def exhaustive(ctx, arg, rec):
    alphabet, maxlen, shard, nshards = arg
    i = 0
    for ln in range(1, maxlen + 1):  # the empty sequence is outside the encoder's contract (no weight volume is empty)
        for seq in itertools.product(alphabet, repeat=ln):
            i += 1
            if i % nshards != shard:
                continue
            case = dict(kind="seq", values=list(seq))
            rec.case()
            try:
                rec.check(check_stream, case, rec, list(seq))
            except Violation as v:
                rec.violation(v)
                return
    rec.exhaustive = True


# ----------------------------------------------------------------------------------------------------------
def build_volume(case):
    import numpy as np

    rng = np.random.default_rng(case["seed"])
    shape = tuple(case["shape"])
    dist = case["dist"]
    if dist == "wide":
        vol = rng.integers(-255, 256, size=shape)
    elif dist == "small":
        vol = rng.integers(-4, 5, size=shape)
    elif dist == "sparse":
        vol = np.where(rng.random(shape) < 0.7, 0, rng.integers(-128, 128, size=shape))
    elif dist == "index":  # every position gets a different value pattern: exposes any permutation error
        vol = (np.arange(int(np.prod(shape))).reshape(shape) * 7 + 3) % 511 - 255
    else:
        vol = rng.integers(16, 120, size=shape) * rng.choice(np.array([-1, 1]), size=shape)
    vol = vol.astype(np.int16)  # the extension accepts arrays that cast safely to int16 (the compiler passes int16)
    view = case.get("view", "c")
    if view == "int8":
        vol = np.clip(vol, -128, 127).astype(np.int8)
    elif view == "transposed":  # non-contiguous view: built HWIO then transposed to OHWI, as the compiler does
        vol = np.ascontiguousarray(np.transpose(vol, (1, 2, 3, 0))).transpose(3, 0, 1, 2)
    elif view == "strided":
        big = np.zeros((shape[0] * 2, shape[1], shape[2], shape[3] * 2), np.int16)
        big[::2, :, :, ::2] = vol
        vol = big[::2, :, :, ::2]
    elif view == "negstride":
        vol = np.ascontiguousarray(vol[::-1, :, :, ::-1].astype(np.int16))[::-1, :, :, ::-1]
    return vol


def check_volume(case, rec=None):
    velaenv.init()
    import numpy as np
    from ethosu.vela import api

    vol = build_volume(case)
    acc = hw.ACCELS[case["accel"]]
    accel = getattr(api.NpuAccelerator, acc["enum"])
    trav = api.NpuBlockTraversal.PART_KERNEL_FIRST if case["partkernel"] else api.NpuBlockTraversal.DEPTH_FIRST
    dil = tuple(case["dilation"])
    data = sut("C07/npu_encode_weights", case, api.npu_encode_weights, accel, vol, dil, case["ifm_bits"], case["block_depth"], case["depthwise"], trav)
    data = bytes(data)
    if len(data) % 16 or len(data) == 0:
        raise Violation("C07/volume/length", "stream of %d bytes (must be a non-empty multiple of 16)" % len(data), case)
    try:
        dec = extbuild.ref_decoder()(data)
    except ValueError as e:
        raise Violation("C07/volume/undecodable", "reference decoder: %s" % e, case)
    want = wref.ref_traversal(np.asarray(vol), case["block_depth"], case["depthwise"], case["partkernel"], case["ifm_bits"], acc["ifm_ub"][2], acc["ofm_ub"][2],
                              8 // dil[1], 8 // dil[0])
    if len(dec) < len(want) or not np.array_equal(dec[: len(want)], want):
        k = int(np.nonzero(dec[: len(want)] != want[: len(dec)])[0][0]) if len(dec) >= len(want) else len(dec)
        raise Violation("C07/volume/order", "volume %s %s: decoded stream differs from the hardware traversal at position %d (expected %s, decoded %s)" % (
            list(vol.shape), {k2: case[k2] for k2 in ("accel", "ifm_bits", "block_depth", "depthwise", "partkernel", "dilation", "view")}, k,
            want[k:k + 4].tolist(), dec[k:k + 4].tolist()), case)
    if np.any(dec[len(want):] != 0):
        raise Violation("C07/volume/padding", "non-zero values after the traversal", case)
    if rec is not None:
        padded = len(want) != vol.size
        rec.cls(case["accel"], "depthwise" if case["depthwise"] else ("partkernel" if case["partkernel"] else "depthfirst"), "ifm%d" % case["ifm_bits"], "view-" + case.get("view", "c"))
        if padded or vol.shape[1] > 8 // dil[1] or vol.shape[2] > 8 // dil[0]:
            rec.nontriv([case[k] for k in sorted(case)], sample=case)


def volume_strategy():
    from hypothesis import strategies as st

    @st.composite
    def case(draw):
        depthwise = draw(st.integers(0, 3)) == 0
        partkernel = (not depthwise) and draw(st.booleans())
        dims = st.one_of(st.integers(1, 12), st.integers(1, 70), st.sampled_from([1, 7, 8, 9, 15, 16, 17, 31, 32, 33, 64]))
        o = draw(dims)
        i = 1 if depthwise else draw(dims)
        k = st.one_of(st.integers(1, 5), st.integers(1, 16), st.sampled_from([1, 3, 4, 8, 9]))
        kh, kw = draw(k), draw(k)
        if o * i * kh * kw > 60000:
            kh, kw = min(kh, 3), min(kw, 3)
        return dict(kind="volume", shape=[o, kh, kw, i], seed=draw(st.integers(0, 1 << 30)), dist=draw(st.sampled_from(["wide", "small", "sparse", "index", "index", "offset"])),
                    accel=draw(st.sampled_from(hw.ACCEL_NAMES)), ifm_bits=draw(st.sampled_from([8, 8, 16])), block_depth=8 * draw(st.integers(1, 16)),
                    depthwise=depthwise, partkernel=partkernel, dilation=[draw(st.sampled_from([1, 1, 2])), draw(st.sampled_from([1, 1, 2]))],
                    view=draw(st.sampled_from(["c", "c", "int8", "transposed", "strided", "negstride"])))

    return case()


def volumes(ctx, arg, rec):
    shard, n = arg
    run_hypothesis(rec, volume_strategy(), check_volume, n, sub_seed(ctx.seed, PROPERTY, "volumes", shard))


# ----------------------------------------------------------------------------------------------------------
def check_reject(case, rec=None):
    """out-of-range weights are rejected, not wrapped"""
    velaenv.init()
    import numpy as np
    from ethosu.vela import api

    codec = _codec()
    bad = case["bad"]
    if case["entry"] == "encode":
        vals = [1, -2, 0, 3] * case["pre"] + [bad] + [0, 5] * case["post"]
        try:
            out = codec.encode(vals)
        except Exception:
            out = None
    else:
        rng = np.random.default_rng(case["seed"])
        vol = rng.integers(-100, 100, size=(8, 3, 3, 8)).astype(np.int16)
        vol[case["pre"] % 8, 1, case["post"] % 3, 2] = bad
        try:
            out = api.npu_encode_weights(api.NpuAccelerator.Ethos_U55_128, vol, (1, 1), 8, 16, False, api.NpuBlockTraversal.DEPTH_FIRST)
        except Exception:
            out = None
    if out is not None:
        raise Violation("C07/out-of-range-accepted/%s" % case["entry"], "weight %d outside -255..255 produced a %d-byte stream instead of an error" % (bad, len(out)), case)
    if rec is not None:
        rec.cls("reject-" + case["entry"])
        rec.nontriv([case[k] for k in sorted(case)], sample=case)


def rejects(ctx, arg, rec):
    from hypothesis import strategies as st

    bad = st.one_of(st.integers(256, 400), st.integers(-400, -256), st.sampled_from([256, -256, 511, -512, 32767, -32768, 300, 1000]))
    strat = st.builds(lambda e, b, p, q, s: dict(kind="reject", entry=e, bad=b, pre=p, post=q, seed=s), st.sampled_from(["encode", "npu_encode_weights"]), bad,
                      st.integers(0, 20), st.integers(0, 20), st.integers(0, 1000))
    run_hypothesis(rec, strat, check_reject, arg, sub_seed(ctx.seed, PROPERTY, "reject"), shrink=True)


# ----------------------------------------------------------------------------------------------------------
def run_fuzz_input(binary, path):
    r = subprocess.run([binary, path], capture_output=True, text=True, timeout=600)
    return r.returncode, (r.stdout + r.stderr)


def asan_small(ctx, arg, rec):
    """every short stream through the sanitizer builds: the coverage-guided campaigns reach the shortest inputs only by chance (libFuzzer prefers growing its corpus) and
    the Python extension cannot see an overflow that stays inside malloc's rounding.  All streams of 1..max_len weights over a small alphabet (tiny values and the
    extremes) are written as inputs of the fuzz target (structured layout of csrc/fuzz_mlw.c: mode, distribution, length, two parameters, one byte per weight) and executed
    once each by both builds (round-trip oracle and ASan/UBSan inside the target)."""
    import itertools

    ndebug, max_len = arg
    try:
        binary = extbuild.build_fuzzer(ndebug)
    except extbuild.BuildError as e:
        raise HarnessError(str(e))
    work = tempfile.mkdtemp(prefix="c07asan-")
    try:
        corpus = os.path.join(work, "corpus")
        os.makedirs(corpus)
        k = 0
        for n in range(1, max_len + 1):
            for dist, alphabet in ((0, range(5)), (4, range(2))):  # distribution 0: weight = byte % 5 - 2; distribution 4: +-255
                if dist == 4 and n > 6:
                    continue
                for combo in itertools.product(alphabet, repeat=n):
                    open(os.path.join(corpus, "s%06d" % k), "wb").write(bytes([0, dist, (n - 1) & 0xFF, (n - 1) >> 8, 0, 0]) + bytes(combo))
                    k += 1
        art = os.path.join(work, "art-")
        r = subprocess.run([binary, corpus, "-runs=0", "-artifact_prefix=" + art, "-rss_limit_mb=3000"], capture_output=True, text=True, timeout=1800)
        out = r.stdout + r.stderr
        rec.case(k)
        rec.cls("asan-small-ndebug" if ndebug else "asan-small-debug")
        rec.nontrivial.add("asan-small:%s:%d" % (ndebug, max_len))
        rec.exhaustive = True
        arts = [f for f in os.listdir(work) if f.startswith("art-")]
        if r.returncode != 0 or arts:
            if not arts:
                raise HarnessError("fuzz target exited %d without artifact:\n%s" % (r.returncode, out[-1500:]))
            data = open(os.path.join(work, arts[0]), "rb").read()
            tail = [l for l in out.splitlines() if "ORACLE-FAILURE" in l or "ERROR: AddressSanitizer" in l or "runtime error" in l or "SUMMARY" in l][:4]
            kind = "oracle" if any("ORACLE-FAILURE" in l for l in tail) else "sanitizer"
            rec.violation(Violation("C07/fuzz/%s" % kind, "; ".join(tail)[:600], dict(kind="fuzz", ndebug=ndebug, data=data.hex())))
    finally:
        import shutil

        shutil.rmtree(work, ignore_errors=True)


def fuzz(ctx, arg, rec):
    idx, ndebug, seconds, seed_corpus = arg
    try:
        binary = extbuild.build_fuzzer(ndebug)
    except extbuild.BuildError as e:
        raise HarnessError(str(e))
    work = tempfile.mkdtemp(prefix="c07fuzz-")
    try:
        corpus = os.path.join(work, "corpus")
        os.makedirs(corpus)
        if seed_corpus:
            import numpy as np

            rng = np.random.default_rng(idx)
            for k in range(24):
                open(os.path.join(corpus, "seed%d" % k), "wb").write(bytes(rng.integers(0, 256, size=int(rng.integers(8, 600)), dtype=np.uint8)))
        art = os.path.join(work, "art-")
        cmd = [binary, corpus, "-max_total_time=%d" % seconds, "-seed=%d" % (sub_seed(ctx.seed, "fuzz", idx) or 1), "-max_len=4096", "-artifact_prefix=" + art,
               "-print_final_stats=1", "-rss_limit_mb=3000"]
        r = subprocess.run(cmd, capture_output=True, text=True, timeout=seconds + 300)
        out = r.stdout + r.stderr
        execs = 0
        for line in out.splitlines():
            if line.startswith("stat::number_of_executed_units:"):
                execs = int(line.split(":")[-1])
        arts = [f for f in os.listdir(work) if f.startswith("art-")]
        rec.case(max(execs, 1))
        rec.cls("fuzz-ndebug" if ndebug else "fuzz-debug")
        rec.nontrivial.add("fuzz:%d:%s" % (idx, ndebug))
        rec.notes.append("libFuzzer %s corpus=%s: %d executions in %ds, %d corpus files" % ("NDEBUG" if ndebug else "assert-enabled", "seeded" if seed_corpus else "empty",
                                                                                        execs, seconds, len(os.listdir(corpus))))
        rec.samples.append(dict(kind="fuzz-campaign", ndebug=ndebug, executions=execs, seconds=seconds))
        if r.returncode != 0 or arts:
            if not arts:
                raise HarnessError("fuzzer exited %d without artifact:\n%s" % (r.returncode, out[-1500:]))
            data = open(os.path.join(work, arts[0]), "rb").read()
            tail = [l for l in out.splitlines() if "ORACLE-FAILURE" in l or "ERROR: AddressSanitizer" in l or "runtime error" in l or "SUMMARY" in l][:4]
            kind = "oracle" if any("ORACLE-FAILURE" in l for l in tail) else "sanitizer"
            rec.violation(Violation("C07/fuzz/%s" % kind, "; ".join(tail)[:600], dict(kind="fuzz", ndebug=ndebug, data=data.hex())))
    finally:
        import shutil

        shutil.rmtree(work, ignore_errors=True)


def parts(ctx):
    q = ctx.quick
    ps = []
    L = 5 if q else 7
    ps += [Part("exh_small%02d" % i, exhaustive, ([-2, -1, 0, 1, 2], L, i, 4 if q else 8)) for i in range(4 if q else 8)]
    ps += [Part("exh_extreme", exhaustive, ([-255, -128, -1, 0, 1, 127, 255], 3 if q else 4, 0, 1))]
    ps += [Part("streams%02d" % i, streams, (i, 500 if q else 6000)) for i in range(8)]
    ps += [Part("volumes%02d" % i, volumes, (i, 400 if q else 6000)) for i in range(8)]
    ps += [Part("rejects", rejects, 60 if q else 2000)]
    ps += [Part("asan_small_ndebug", asan_small, (True, 5 if q else 7)), Part("asan_small_debug", asan_small, (False, 5 if q else 7))]
    secs = 10 if q else 300
    ps += [Part("fuzz_ndebug_empty", fuzz, (0, True, secs, False)), Part("fuzz_debug_seeded", fuzz, (1, False, secs, True))]
    if not q:
        ps += [Part("fuzz_ndebug_seeded%d" % i, fuzz, (2 + i, True, secs, True)) for i in range(3)]
        ps += [Part("fuzz_debug_empty%d" % i, fuzz, (5 + i, False, secs, False)) for i in range(3)]
    return ps


def replay(ctx, case):
    k = case.get("kind")
    if k in ("seq", "gen"):
        check_stream(case, None)
    elif k == "volume":
        check_volume(case, None)
    elif k == "reject":
        check_reject(case, None)
    elif k == "fuzz":
        binary = extbuild.build_fuzzer(case["ndebug"])
        with tempfile.NamedTemporaryFile(suffix=".bin", delete=False) as f:
            f.write(bytes.fromhex(case["data"]))
        try:
            rc, out = run_fuzz_input(binary, f.name)
        finally:
            os.unlink(f.name)
        if rc != 0:
            raise Violation("C07/fuzz/replay", out[-600:], case)
    else:
        raise Violation("C07/replay", "unknown case kind", case)

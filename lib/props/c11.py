"""C11 - model interface and CPU-resident operators are preserved verbatim (structural differential of two flatbuffers)."""
from runner import Part, Violation, sub_seed, run_hypothesis, HarnessError
import e2e
import fbwrite
import forkcall
import tflgen
import velaenv
import vmodel

PROPERTY = "C11"
RULE = (
    "generated networks dominated by operators Vela must leave alone (tflgen 'cpumix': ~20 float operator kinds with populated option tables between DEQUANTIZE/QUANTIZE, "
    "third-party custom operators with opaque option bytes, GATHER/TILE, NPU kinds made unsupported (stride 4), constants consumed on the CPU) interleaved with NPU-supported "
    "operators, plus the 'wide' profile (several inputs/outputs, intermediates that are outputs) x configurations; the source file (written by the harness' own writer) and "
    "the output file are both parsed with the vendored plain parser and compared: interface, every surviving operator (code, custom code, version, every option field by "
    "introspection, custom option bytes, constant operand bytes, wiring by tensor identity), attribution of every missing operator to an Ethos-U operator, dependency order, "
    "parse-back with Vela's reader. non-trivial = >=1 CPU-resident operator with a non-default option or custom options and >=1 Ethos-U operator in the output; distinct = hash of the network."
)
ASSUMPTIONS = [
    "tensor names are unique in generated models, so tensor identity across the two files is decided by name",
    "an operator may disappear only if every tensor it produced is produced by an Ethos-U operator, absent from the output (internal to an NPU subgraph), or a constant now",
    "operators that can never run on the NPU (custom, float, GATHER, TILE) must be present",
]

NEVER_NPU = {"CUSTOM", "GATHER", "TILE"}
MERGEABLE_FLOAT = {"DEQUANTIZE", "QUANTIZE", "EXP", "LOG"}  # the fork merges DEQUANTIZE -> EXP/LOG -> QUANTIZE into one NPU lookup-table operator


def _tensor_sig(t):
    return (t["shape"], t["dtype"], t["scale"], t["zp"], t["qdim"] if t["scale"] and len(t["scale"]) > 1 else 0)


def compare(case, src, out, rec=None):
    """every subgraph of the source (main graph, WHILE condition/body, CALL_ONCE initialisation ...) against the subgraph with the same index of the output model"""
    if len(src["subgraphs"]) != len(out["subgraphs"]):
        raise Violation("C11/interface/subgraph-count", "source model has %d subgraphs, output model %d" % (len(src["subgraphs"]), len(out["subgraphs"])), case)
    if out["buffers"] and out["buffers"][0] is not None:
        raise Violation("C11/file/buffer0", "buffer 0 of the output model is not empty", case)
    # every constant tensor's buffer holds exactly as many bytes as its shape and element type say (a plain parser, and the runtime, rely on it)
    for k, sg in enumerate(out["subgraphs"]):
        for t in sg["tensors"]:
            want = vmodel.tensor_nbytes(t) if t.get("data") is not None and t["dtype"] in vmodel.NP_DTYPES else None
            if want is not None and len(t["data"]) != want:
                raise Violation("C11/file/buffer-size", "subgraph %d tensor '%s' (%s %s) has a buffer of %d bytes, its shape and type need %d" % (k, t["name"], t["dtype"], t["shape"], len(t["data"]), want), case)
    rich = 0
    for k in range(len(src["subgraphs"])):
        try:
            rich += _compare_sg(case, src["subgraphs"][k], out["subgraphs"][k], rec) or 0
        except Violation as v:
            if k:
                v.message = "subgraph %d (%s): %s" % (k, src["subgraphs"][k]["name"], v.message)
            raise
    return rich


def _compare_unnamed(case, ss, os_):
    """source models in which two tensors share a name (legal: names are labels; converters leave constants unnamed): operators cannot be matched through the names of
    their results, so every operator the output model keeps on the CPU is looked up in the source by what it is - operator code, version, options, operand pattern
    (omitted operands, element types, shapes, quantisation), the bytes of its constant operands and its results' types.  Each source operator can be claimed once."""
    st, ot = ss["tensors"], os_["tensors"]

    def norm(o):
        return None if o is None or not o[1] else (o[0], tuple(sorted((k, repr(v)) for k, v in o[1].items())))

    def sig(o, tensors):
        ins = tuple(None if i < 0 else (repr(_tensor_sig(tensors[i])), tensors[i]["data"]) for i in o["inputs"])
        outs = tuple(repr(_tensor_sig(tensors[t])) for t in o["outputs"])
        return (o["code"], o["custom_code"], o["version"], norm(o["options"]), o["custom_options"], ins, outs)

    pool = [sig(o, st) for o in ss["ops"]]

    def matches(p, g):
        # p: source operator, g: operator of the output model.  A constant operand must come back with its bytes; an operand that is an activation in the source may have
        # become a constant (a producer folded by the compiler, e.g. SHAPE), its bytes are not this rule's business
        if p[:5] != g[:5] or len(p[5]) != len(g[5]) or p[6] != g[6]:
            return False
        for a, b in zip(p[5], g[5]):
            if (a is None) != (b is None):
                return False
            if a is None:
                continue
            if a[0] != b[0] or (a[1] is not None and a[1] != b[1]):
                return False
        return True

    n = 0
    for k, o in enumerate(os_["ops"]):
        if o["custom_code"] == "ethos-u":
            continue
        g = sig(o, ot)
        hit = next((p for p in pool if matches(p, g)), None)
        if hit is not None:
            pool.remove(hit)
            n += 1
            continue
        # say what is closest: same operator with another operand pattern?
        same = [p for p in pool if p[:5] == g[:5]]
        why = "no operator of that kind, version and options is left in the source"
        if same:
            p0 = same[0]
            if len(p0[5]) != len(g[5]):
                why = "operand count %d -> %d" % (len(p0[5]), len(g[5]))
            else:
                bad = [i for i, (a, b) in enumerate(zip(p0[5], g[5])) if (a is None) != (b is None) or (a is not None and (a[0] != b[0] or (a[1] is not None and a[1] != b[1])))]
                why = "operand(s) %s differ (omitted, other type/shape/quantisation, or other constant data)" % bad if bad else "result tensors differ"
        raise Violation("C11/op-changed/unnamed", "operator %d (%s) of the output model matches no operator of the source (tensor names are not unique there, matched by content): %s" % (
            k, o["custom_code"] or o["code"], why), case)
    return n


def _compare_sg(case, ss, os_, rec=None):
    st, ot = ss["tensors"], os_["tensors"]
    # 1 interface
    for what, a, b in (("inputs", ss["inputs"], os_["inputs"]), ("outputs", ss["outputs"], os_["outputs"])):
        an, bn = [st[i]["name"] for i in a], [ot[i]["name"] for i in b]
        if an != bn:
            raise Violation("C11/interface/%s-list" % what, "subgraph %s: source %s, output model %s" % (what, an, bn), case)
        for i, j in zip(a, b):
            if _tensor_sig(st[i]) != _tensor_sig(ot[j]):
                raise Violation("C11/interface/%s-tensor" % what, "subgraph %s tensor '%s': source %s, output model %s" % (what, st[i]["name"], _tensor_sig(st[i]), _tensor_sig(ot[j])), case)
    oname = {t["name"]: i for i, t in enumerate(ot)}
    if len(set(t["name"] for t in st)) != len(st) and len(oname) == len(ot):
        return _compare_unnamed(case, ss, os_)  # duplicate names in the source, none left in the output model: still nothing can be matched by name
    if len(oname) != len(ot):
        dup = [t["name"] for t in ot if [x["name"] for x in ot].count(t["name"]) > 1]
        src_names = [t["name"] for t in st]
        if any(src_names.count(n) > 1 for n in dup):
            return _compare_unnamed(case, ss, os_)  # the source itself re-uses a tensor name: operators cannot be matched by their result's name
        raise Violation("C11/output/duplicate-tensor-names", "output model has duplicate tensor names %s" % sorted(set(dup))[:4], case)
    # producers in the output model
    producer = {}
    for k, o in enumerate(os_["ops"]):
        for t in o["outputs"]:
            if t in producer:
                raise Violation("C11/output/two-producers", "tensor '%s' is produced by operators %d and %d" % (ot[t]["name"], producer[t], k), case)
            producer[t] = k
    # 3 dependency order
    avail = set(os_["inputs"])
    for k, o in enumerate(os_["ops"]):
        ins = o["inputs"][4:] if o["custom_code"] == "ethos-u" else o["inputs"]  # command stream, flash, scratch, scratch_fast are the operator's own buffers
        for t in ins:
            if t < 0:
                continue
            if ot[t]["data"] is None and t not in avail and not ot[t]["is_variable"]:
                raise Violation("C11/order", "operator %d (%s) reads tensor '%s' which is neither constant, a subgraph input nor produced by an earlier operator" % (
                    k, o["custom_code"] or o["code"], ot[t]["name"]), case)
        avail.update(o["outputs"])
    for t in os_["outputs"]:
        if t not in avail and ot[t]["data"] is None:
            raise Violation("C11/order", "subgraph output '%s' is never produced" % ot[t]["name"], case)
    npu_outputs = set()
    for o in os_["ops"]:
        if o["custom_code"] == "ethos-u":
            npu_outputs.update(ot[t]["name"] for t in o["outputs"])
    # reachability in the source (operators contributing to an output)
    sprod = {}
    for k, o in enumerate(ss["ops"]):
        for t in o["outputs"]:
            sprod[t] = k
    live = set()
    stack = list(ss["outputs"])
    while stack:
        t = stack.pop()
        k = sprod.get(t)
        if k is None or k in live:
            continue
        live.add(k)
        stack.extend(i for i in ss["ops"][k]["inputs"] if i >= 0)
    n_cpu_rich = 0
    for k in sorted(live):
        so = ss["ops"][k]
        names = [st[t]["name"] for t in so["outputs"]]
        cands = [j for j, oo in enumerate(os_["ops"]) if [ot[t]["name"] for t in oo["outputs"]] == names]
        label = so["custom_code"] or so["code"]
        if not cands:
            # must be attributable to an Ethos-U operator or a fold
            for t, nm in zip(so["outputs"], names):
                if nm in oname:
                    j = oname[nm]
                    if ot[j]["data"] is not None:
                        continue  # folded into a constant
                    if nm not in npu_outputs:
                        raise Violation("C11/op-lost", "source operator %d (%s) is gone but its output '%s' is still in the output model and no Ethos-U operator produces it" % (k, label, nm), case)
            if so["code"] in NEVER_NPU or (so["code"] not in MERGEABLE_FLOAT and any(st[t]["dtype"].startswith("float") for t in so["outputs"] + [i for i in so["inputs"] if i >= 0])):
                raise Violation("C11/op-lost/never-npu", "source operator %d (%s) cannot run on the NPU but is missing from the output model" % (k, label), case)
            continue
        if len(cands) > 1:
            raise Violation("C11/op-duplicated", "source operator %d (%s) appears %d times" % (k, label, len(cands)), case)
        oo = os_["ops"][cands[0]]
        if oo["custom_code"] == "ethos-u":
            continue
        for fld in ("code", "custom_code", "version"):
            if so[fld] != oo[fld]:
                tag = "+dequant-lut-quant-merged-but-left-on-cpu" if (fld == "code" and so["code"] == "QUANTIZE" and oo["code"] in ("EXP", "LOG")) else ""
                raise Violation("C11/op-changed/%s%s" % (fld, tag), "operator %d (%s): %s %r -> %r" % (k, label, fld, so[fld], oo[fld]), case)
        def _norm(o):
            # no option table and an empty / all-default-free table of the operator's own kind are the same thing
            if o is None or not o[1]:
                return None
            return o

        if _norm(so["options"]) != _norm(oo["options"]):
            a, b = so["options"] or (None, {}), oo["options"] or (None, {})
            diff = {f: (a[1].get(f), (b[1] or {}).get(f)) for f in (a[1] or {}) if (a[1] or {}).get(f) != (b[1] or {}).get(f)} if a[0] == b[0] else (a[0], b[0])
            raise Violation("C11/op-changed/options", "operator %d (%s): option table differs: %s" % (k, label, diff), case)
        if so["custom_options"] != oo["custom_options"]:
            raise Violation("C11/op-changed/custom-options", "operator %d (%s): custom option bytes differ" % (k, label), case)
        if len(so["inputs"]) != len(oo["inputs"]):
            raise Violation("C11/op-changed/operand-count", "operator %d (%s): %d operands -> %d" % (k, label, len(so["inputs"]), len(oo["inputs"])), case)
        for pos, (a, b) in enumerate(zip(so["inputs"], oo["inputs"])):
            if (a < 0) != (b < 0):
                raise Violation("C11/op-changed/optional-operand", "operator %d (%s): operand %d optional/present changed" % (k, label, pos), case)
            if a < 0:
                continue
            ta, tb = st[a], ot[b]
            if ta["data"] is not None:
                if tb["data"] != ta["data"] or _tensor_sig(ta) != _tensor_sig(tb):
                    raise Violation("C11/op-changed/constant-operand", "operator %d (%s): constant operand %d ('%s') changed" % (k, label, pos, ta["name"]), case)
            elif ta["name"] != tb["name"]:
                raise Violation("C11/op-changed/wiring", "operator %d (%s): operand %d rewired '%s' -> '%s'" % (k, label, pos, ta["name"], tb["name"]), case)
            elif _tensor_sig(ta) != _tensor_sig(tb):
                raise Violation("C11/op-changed/operand-tensor", "operator %d (%s): operand %d '%s' %s -> %s" % (k, label, pos, ta["name"], _tensor_sig(ta), _tensor_sig(tb)), case)
        # intermediates (the LSTM's scratch tensors: their quantisation parameters are part of the operator's definition)
        if len(so.get("intermediates", [])) != len(oo.get("intermediates", [])):
            raise Violation("C11/op-changed/intermediates", "operator %d (%s): %d intermediates -> %d" % (k, label, len(so.get("intermediates", [])), len(oo.get("intermediates", []))), case)
        for pos, (a, b) in enumerate(zip(so.get("intermediates", []), oo.get("intermediates", []))):
            if _tensor_sig(st[a]) != _tensor_sig(ot[b]):
                raise Violation("C11/op-changed/intermediates", "operator %d (%s): intermediate %d %s -> %s" % (k, label, pos, _tensor_sig(st[a]), _tensor_sig(ot[b])), case)
        for a, b in zip(so["outputs"], oo["outputs"]):
            if _tensor_sig(st[a]) != _tensor_sig(ot[b]):
                raise Violation("C11/op-changed/result-tensor", "operator %d (%s): result '%s' %s -> %s" % (k, label, st[a]["name"], _tensor_sig(st[a]), _tensor_sig(ot[b])), case)
        opts = so["options"][1] if so["options"] and so["options"][1] else {}
        if so["custom_options"] or any(v not in (0, False, 0.0, None, [], 1) for v in opts.values()):
            n_cpu_rich += 1
    return n_cpu_rich


def _reader_child(data):
    import os
    import tempfile

    velaenv.init()
    from ethosu.vela import model_reader

    d = tempfile.mkdtemp(prefix="c11-")
    p = os.path.join(d, "o.tflite")
    with open(p, "wb") as f:
        f.write(data)
    nng, _ = model_reader.read_model(p, model_reader.ModelReaderOptions())
    n = sum(len(sg.get_all_ops()) if hasattr(sg, "get_all_ops") else 0 for sg in nng.subgraphs)
    import shutil

    shutil.rmtree(d, ignore_errors=True)
    return n


def oracle(case, rec=None):
    import artefact

    try:
        art, res = e2e.compile_case(case)
    except (artefact.ArtefactError, vmodel.ModelError) as e:
        raise Violation("C11/file/unparsable", "%s: %s" % (type(e).__name__, e), case)
    if res.get("harness"):
        raise HarnessError(res["exc"][3])
    if art is None:
        return
    src = vmodel.load(fbwrite.build(case["spec"]))
    try:
        rich = compare(case, src, art.model, rec)
    except Violation as v:
        import constructs

        v.tags = tuple(v.tags) + tuple(constructs.tags(case["spec"], case["cfg"]))
        raise
    r = forkcall.forkcall(_reader_child, res["out_model"], 120)
    if r[0] != "ok":
        raise Violation("C11/file/vela-reader", "Vela's own reader cannot read the output model: %s" % (r[1:4],), case)
    if rec is not None:
        npu = len(art.npu_ops)
        rec.cls("npu-ops-%d" % min(npu, 3), "cpu-rich" if rich else "cpu-plain")
        if rich and npu:
            rec.nontriv([case], sample=dict(ops=[o.get("custom_code") or o["code"] for o in case["spec"]["ops"]], cfg=case["cfg"], ethos_u_operators=npu, cpu_ops_with_options=rich))


def strategy(profile):
    from hypothesis import strategies as st

    @st.composite
    def case(draw):
        if profile == "unnamed":
            # tensor names that repeat (unnamed constants, results all called "custom") in networks dominated by CPU-resident operators
            import copy

            import corners

            spec = copy.deepcopy(draw(tflgen.network(draw(st.sampled_from(["cpumix", "cpumix", "wide"])), max_ops=5, big=False)))
            r = corners.unnamed_consts(spec, draw, st)
            spec["corners"] = [r] if r else []
            return dict(kind="e2e", spec=spec, cfg=draw(tflgen.config()))
        if profile == "corners":
            # corner features that leave the model compilable: what the file says about interface tensors and CPU-resident operators must come back verbatim also when it is
            # unusual (a scale without zero point, no quantisation, shape signatures, duplicate names, dead operators, an input that is also an output, variable flags)
            import corners

            spec = draw(tflgen.network(draw(st.sampled_from(["cpumix", "wide", "npu"])), max_ops=5, big=False))
            import copy

            spec = copy.deepcopy(spec)
            done = []
            for _ in range(draw(st.integers(1, 2))):
                f = draw(st.sampled_from([corners.shape_signature, corners.dead_op, corners.output_is_input, corners.no_quant, corners.self_binary, corners.scale_only,
                                          corners.scale_only, corners.wide_dtype, corners.custom_tail, corners.while_tail, corners.while_tail, corners.call_once_head, corners.unnamed_consts, corners.unnamed_consts]))
                r = f(spec, draw, st)
                if r:
                    done.append(r)
            spec["corners"] = done
            return dict(kind="e2e", spec=spec, cfg=draw(tflgen.config()))
        return dict(kind="e2e", spec=draw(tflgen.network(profile, max_ops=7, big=False)), cfg=draw(tflgen.config()))

    return case()


def run(ctx, arg, rec):
    shard, n, profile = arg
    run_hypothesis(rec, strategy(profile), oracle, n, sub_seed(ctx.seed, PROPERTY, profile, shard))


def parts(ctx):
    q = ctx.quick
    return [Part("cpumix%02d" % i, run, (i, 45 if q else 1800, "cpumix")) for i in range(12)] + [Part("wide%02d" % i, run, (i, 40 if q else 900, "wide")) for i in range(4)] + [Part("corners%02d" % i, run, (i, 40 if q else 900, "corners")) for i in range(2)] + [
        Part("rnn%02d" % i, run, (i, 12 if q else 400, "rnn")) for i in range(1)] + [Part("unnamed%02d" % i, run, (i, 30 if q else 600, "unnamed")) for i in range(2)]


def replay(ctx, case):
    oracle(case, None)

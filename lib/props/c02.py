"""C02 - every NPU memory access stays inside the region the output model declares (decided on compiled artefacts)."""
import props.e2e_parts as e2e_parts

PROPERTY = "C02"
RULE = (
    "generated networks (tflgen 'npu' profile: every operator kind the reference models, chain/residual/concat/split shapes, int8/uint8/int16, tall planes to force "
    "striping) x compiler configuration (6 accelerators, memory modes incl. Dedicated_Sram, Size/Performance, arena cache sizes from 2 KiB, 3 allocators, alignments), "
    "half of the shards biased to small arena caches; every operation and DMA of every emitted stream is decoded and its exact element footprint (tiles, strides, "
    "NHCWB16 bricks, weights/scales per core, LUT slot, SHRAM) must lie inside the extents the output file publishes: region 0 = flash bytes, region 1 = scratch "
    "shape, region 2 = scratch_fast shape, SHRAM = banks of the accelerator in the payload; no write to region 0. "
    "non-trivial = artefact with a tiled (rolling-buffer) or NHCWB16 feature map, a DMA, or region 2 in use; distinct = hash of (network, configuration)."
)
ASSUMPTIONS = [
    "footprints are element-exact (lib/footprint.py, H2); the hardware may fetch whole bursts beyond them, which storage rounding is assumed to cover",
    "region numbering: 0 = flash (read-only constants), 1 = arena base = scratch tensor (must sit at offset 0), 2 = scratch_fast, 0x103 = SHRAM",
]


def parts(ctx):
    return e2e_parts.parts_for(ctx, PROPERTY, shards=16)


def replay(ctx, case):
    e2e_parts.replay(ctx, PROPERTY, case)

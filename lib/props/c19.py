"""C19 - lookup tables and compile-time fixed-point maths match their reference functions."""
import math
from fractions import Fraction

from runner import Part, Violation, sub_seed, run_hypothesis, sut
import tflref
import velaenv

PROPERTY = "C19"
RULE = (
    "(a) fp_math helpers vs a gemmlowp reference on Python ints: exhaustive 8-bit pairs and 16-bit singles x {Python int, np.int8/16/32/64} operand types, "
    "16-bit pairs sampled, 32-bit boundary-biased pairs (Hypothesis), (multiplier, shift) from quantise_scale of sampled scales, exp_on_negative_values on a "
    "lattice of Q5.26 inputs + boundaries of every barrel-shifter stage; (b) tables: (ifm scale, zp, ofm scale, zp, alpha, dtype) sampled, tables obtained by "
    "calling the rewrite on a constructed operator exactly as the graph optimiser does; sigmoid/tanh (and the fork's exp/sqrt/gelu) vs mpmath 100-bit real "
    "function, leaky-relu vs TFLite integer kernel, hard-swish vs a port of the TFLite kernel; (c) optimise_quantize int8->int8 / int16->int16 constants vs "
    "TFLite Requantize. non-trivial = table not constant and not saturated for >50% of codes / operand pair whose exact product needs >31 bits; "
    "distinct = parameters hash."
)
ASSUMPTIONS = [
    "table entries whose exact value lies within 2^-20 of a rounding tie accept both neighbours; sigmoid accepts the saturated 0/1 for |x|>=8 (clamp_sigmoid)",
    "leaky-relu: the reference multiplier may be derived in float32 (TFLite kernel code) or double; an entry is correct if it equals either reference table",
    "hard-swish reference = port of tflite::reference_ops::HardSwish (int8/uint8) written from the kernel definition",
    "operand types are those production passes: reader zero points are np.int64, tensor values np.int8/np.int16, scales np.float32",
    "optimise_quantize's float branch is unreachable through the compiler (a float-input QUANTIZE never has run_on_npu) and is not asserted",
]

I16 = (-(1 << 15), (1 << 15) - 1)
I32 = (-(1 << 31), (1 << 31) - 1)


def _fp():
    velaenv.init()
    from ethosu.vela import fp_math

    return fp_math


# ------------------------- gemmlowp reference on Python ints ------------------------------------------------
def ref_srdhm(a, b, bits=32):
    lo, hi = -(1 << (bits - 1)), (1 << (bits - 1)) - 1
    if a == lo and b == lo:
        return hi
    ab = a * b
    nudge = (1 << (bits - 2)) if ab >= 0 else 1 - (1 << (bits - 2))
    x = ab + nudge
    q = abs(x) >> (bits - 1)
    return q if x >= 0 else -q


def ref_sdhm16(a, b):  # SaturatingDoublingHighMul (no rounding, truncation toward zero)
    if a == I16[0] and b == I16[0]:
        return I16[1]
    ab = a * b
    q = abs(ab) >> 15
    return q if ab >= 0 else -q


def ref_rdbp(x, e):
    return tflref.rounding_divide_by_pot(x, e)


def ref_shl_sat(a, off, bits):
    lo, hi = -(1 << (bits - 1)), (1 << (bits - 1)) - 1
    return min(max(a * (1 << off), lo), hi)


def ref_mbqm_vela(x, scale, vshift):
    """fp_math.multiply_by_quantized_multiplier with Vela's shift convention (value = scale * 2^-vshift)"""
    return tflref.multiply_by_quantized_multiplier(x, scale, 31 - vshift)


def ref_exp_on_negative_values(a):
    """gemmlowp exp_on_negative_values for FixedPoint<int32,5> input, result Q0.31"""
    if a == 0:
        return I32[1]
    one_quarter = 1 << 24
    mask = one_quarter - 1
    a_mod = (a & mask) - one_quarter
    # exp_on_interval_between_negative_one_quarter_and_0_excl, input rescaled Q5.26 -> Q0.31 (shift left 5, saturating)
    x0 = ref_shl_sat(a_mod, 5, 32)
    constant_term = 1895147668
    c13 = 715827883
    x = x0 + (1 << 28)
    x2 = ref_srdhm(x, x)
    x3 = ref_srdhm(x2, x)
    x4 = ref_srdhm(x2, x2)
    x4_4 = ref_rdbp(x4, 2)
    t = ref_rdbp(ref_srdhm(x4_4 + x3, c13) + x2, 1)
    result = constant_term + ref_srdhm(constant_term, x + t)
    remainder = a_mod - a
    for exponent, mult in ((-2, 1672461947), (-1, 1302514674), (0, 790015084), (1, 290630308), (2, 39332535), (3, 720401), (4, 242)):
        if remainder & (1 << (26 + exponent)):
            result = ref_srdhm(result, mult)
    return result


def _types():
    import numpy as np

    return {"int": int, "np.int8": np.int8, "np.int16": np.int16, "np.int32": np.int32, "np.int64": np.int64}


def _call(name, case, fn, *args):
    """call a helper; any exception or NumPy overflow warning is a violation (inputs are inside the helper's documented domain)"""
    import warnings

    with warnings.catch_warnings():
        warnings.simplefilter("error", RuntimeWarning)
        try:
            r = fn(*args)
        except Violation:
            raise
        except Exception as e:  # noqa
            raise Violation("C19/%s/exception/%s" % (name, type(e).__name__), "%s%r raised %s: %s" % (name, tuple(args), type(e).__name__, str(e)[:200]), case)
    return int(r)


def check_helper(case, rec=None):
    fp = _fp()
    T = _types()
    fn, ty = case["fn"], case["ty"]
    conv = T[ty]
    a = case["a"]
    b = case.get("b")
    big = False
    if fn == "saturating_rounding_mul32":
        got = _call(fn, case, fp.saturating_rounding_mul32, conv(a), conv(b))
        want = ref_srdhm(a, b, 32)
        big = abs(a * b) >= (1 << 31)
    elif fn == "saturating_rounding_mul16":
        got = _call(fn, case, fp.saturating_rounding_mul16, conv(a), conv(b))
        want = ref_srdhm(a, b, 16)
        big = abs(a * b) >= (1 << 15)
    elif fn == "saturating_mul16":
        got = _call(fn, case, fp.saturating_mul16, conv(a), conv(b))
        want = ref_sdhm16(a, b)
        big = abs(a * b) >= (1 << 15)
    elif fn == "shift_left16":
        got = _call(fn, case, fp.shift_left16, conv(a), b)
        want = ref_shl_sat(a, b, 16)
        big = abs(a) << b >= (1 << 15)
    elif fn == "shift_left32":
        got = _call(fn, case, fp.shift_left32, conv(a), b)
        want = ref_shl_sat(a, b, 32)
        big = abs(a) << b >= (1 << 31)
    elif fn == "srmbp":
        got = _call(fn, case, fp.saturating_rounding_multiply_by_pot, conv(a), b)
        want = ref_shl_sat(a, b, 32)
        big = abs(a) << b >= (1 << 31)
    elif fn == "rounding_divide_by_pot":
        got = _call(fn, case, fp.rounding_divide_by_pot, conv(a), b)
        want = ref_rdbp(a, b)
        big = b > 0 and (a & ((1 << b) - 1)) != 0
    elif fn == "downscale":
        got = _call(fn, case, fp.downscale_multiplier_int32_to_int16, conv(a))
        want = I16[1] if a >= I32[1] - (1 << 15) else (a + (1 << 15)) >> 16
        big = True
    elif fn == "mbqm":
        got = _call(fn, case, fp.multiply_by_quantized_multiplier, conv(a), case["scale"], case["shift"])
        want = ref_mbqm_vela(a, case["scale"], case["shift"])
        big = a != 0
    elif fn == "exp":
        got = _call(fn, case, fp.exp_on_negative_values, conv(a))
        want = ref_exp_on_negative_values(a)
        big = a != 0
    else:
        raise AssertionError(fn)
    if got != want:
        raise Violation("C19/%s/value" % fn, "%s(%s %s, %s) = %d, gemmlowp reference %d" % (fn, ty, a, b if b is not None else (case.get("scale"), case.get("shift")), got, want), case)
    return big


def helpers_exhaustive(ctx, arg, rec):
    """8-bit pairs for the two-operand helpers and all 16-bit singles for one-operand forms, every operand type that can hold the value"""
    which, shard, nshards = arg
    n = 0
    nt = 0

    def run(case):
        nonlocal n, nt
        n += 1
        try:
            if rec.check(lambda c: check_helper(c), case):
                nt += 1
        except Violation as v:
            rec.violation(v)
            return False
        return True

    if which == "pairs8":
        vals = list(range(-128, 128))
        for i, a in enumerate(vals):
            if i % nshards != shard:
                continue
            for b in vals:
                for fn in ("saturating_rounding_mul16", "saturating_mul16", "saturating_rounding_mul32"):
                    for ty in ("int", "np.int8", "np.int16", "np.int64"):
                        if fn.endswith("32") and ty == "np.int8":
                            continue
                        if not run(dict(kind="helper", fn=fn, ty=ty, a=a, b=b)):
                            return
    elif which == "single16":
        for a in range(-32768 + shard, 32768, nshards):
            for ty in ("int", "np.int16", "np.int32", "np.int64"):
                for sh in (0, 1, 2, 7, 14, 15):
                    if not run(dict(kind="helper", fn="shift_left16", ty=ty, a=a, b=sh)):
                        return
                    if not run(dict(kind="helper", fn="rounding_divide_by_pot", ty=ty, a=a, b=sh)):
                        return
                if not run(dict(kind="helper", fn="saturating_rounding_mul16", ty=ty, a=a, b=a)):
                    return
                if not run(dict(kind="helper", fn="saturating_mul16", ty=ty, a=a, b=-a if a != -32768 else a)):
                    return
    rec.case(n)
    rec.cls(which)
    for k in range(nt // 1024 + 1):
        rec.nontrivial.add("%s:%d:%d" % (which, shard, k))
    rec.notes.append("%s shard %d: %d evaluations, %d non-trivial (counted in blocks of 1024)" % (which, shard, n, nt))
    rec.samples.append(dict(kind="helper-block", which=which, shard=shard, evaluations=n))
    rec.exhaustive = True


def helper_strategy():
    from hypothesis import strategies as st

    def edge(bits):
        lo, hi = -(1 << (bits - 1)), (1 << (bits - 1)) - 1
        return st.one_of(st.integers(lo, hi), st.sampled_from([lo, lo + 1, hi, hi - 1, 0, 1, -1, 1 << (bits - 2), -(1 << (bits - 2))]),
                         st.integers(0, bits - 2).flatmap(lambda k: st.sampled_from([(1 << k), (1 << k) - 1, -(1 << k), -(1 << k) - 1, (1 << k) + 1])))

    i32, i16 = edge(32), edge(16)
    scales = st.floats(min_value=2.0 ** -20, max_value=2.0 ** 10).map(tflref.quantize_multiplier).map(lambda ms: (ms[0], 31 - ms[1]))
    return st.one_of(
        st.builds(lambda a, b, ty: dict(kind="helper", fn="saturating_rounding_mul32", ty=ty, a=a, b=b), i32, i32, st.sampled_from(["int", "np.int32", "np.int64"])),
        st.builds(lambda a, b, fn, ty: dict(kind="helper", fn=fn, ty=ty, a=a, b=b), i16, i16, st.sampled_from(["saturating_rounding_mul16", "saturating_mul16"]),
                  st.sampled_from(["int", "np.int16", "np.int32", "np.int64"])),
        st.builds(lambda a, b, ty: dict(kind="helper", fn="shift_left32", ty=ty, a=a, b=b), i32, st.integers(0, 31), st.sampled_from(["int", "np.int32", "np.int64"])),
        st.builds(lambda a, b, ty: dict(kind="helper", fn="srmbp", ty=ty, a=a, b=b), i32, st.integers(0, 30), st.sampled_from(["int", "np.int32", "np.int64"])),
        st.builds(lambda a, b, ty: dict(kind="helper", fn="rounding_divide_by_pot", ty=ty, a=a, b=b), i32, st.integers(0, 31), st.sampled_from(["int", "np.int32", "np.int64"])),
        st.builds(lambda a, ty: dict(kind="helper", fn="downscale", ty=ty, a=a), st.one_of(st.integers(0, I32[1]), st.integers(I32[1] - 70000, I32[1])), st.sampled_from(["int", "np.int32", "np.int64"])),
        # mbqm: x such that x << left_shift stays in int32 (the documented domain: x is an int32 product operand)
        st.builds(lambda a, ms, ty: dict(kind="helper", fn="mbqm", ty=ty, a=a, scale=ms[0], shift=ms[1]),
                  st.one_of(st.integers(-512, 512), st.integers(-70000, 70000)), scales, st.sampled_from(["int", "np.int64", "np.int32"])),
        st.builds(lambda a, ty: dict(kind="helper", fn="exp", ty=ty, a=a),
                  st.one_of(st.integers(I32[0], 0), st.integers(0, 31).map(lambda k: -(1 << k)), st.integers(0, 30).map(lambda k: -(1 << k) - 1),
                            st.integers(0, 31).map(lambda k: -(1 << k) + 1), st.integers(-(1 << 31), -(1 << 30))),
                  st.sampled_from(["int", "np.int32", "np.int64"])),
    )


def oracle_helper(case, rec=None):
    if case["fn"] == "mbqm":
        vs = 31 - case["shift"]
        if vs > 0 and abs(case["a"]) << vs > I32[1]:
            return  # outside the helper's domain (x * 2^left_shift must be an int32)
    big = check_helper(case, rec)
    if rec is not None:
        rec.cls(case["fn"] + ":" + case["ty"])
        if big:
            rec.nontriv([case[k] for k in sorted(case)], sample=case)


def helpers_random(ctx, arg, rec):
    shard, n = arg
    run_hypothesis(rec, helper_strategy(), oracle_helper, n, sub_seed(ctx.seed, PROPERTY, "helpers", shard), shrink=True)


def exp_lattice(ctx, arg, rec):
    """exp_on_negative_values over a lattice of Q5.26 inputs (stride prime) + all stage boundaries"""
    shard, nshards, stride = arg
    fp = _fp()
    import numpy as np

    pts = set(range(-(1 << 31) + shard * 7919, 1, stride * nshards))
    for k in range(22, 32):
        for d in range(-3, 4):
            pts.add(max(-(1 << k) + d, -(1 << 31)))
    pts = sorted(p for p in pts if -(1 << 31) <= p <= 0)
    n = 0
    for a in pts:
        n += 1
        for ty in (int, np.int32):
            case = dict(kind="helper", fn="exp", ty="int" if ty is int else "np.int32", a=a)
            try:
                rec.check(lambda c: check_helper(c), case)
            except Violation as v:
                rec.violation(v)
                return
    rec.case(2 * n)
    rec.cls("exp-lattice")
    for k in range(n // 1024 + 1):
        rec.nontrivial.add("exp:%d:%d" % (shard, k))
    rec.samples.append(dict(kind="exp-lattice", points=n, stride=stride * nshards, first=pts[0]))


# ------------------------- tables -------------------------------------------------------------------------
def _mk_op(optype, dtype, s_in, zp_in, s_out, zp_out, attrs=None):
    import numpy as np
    from ethosu.vela.operation import Op, Operation
    from ethosu.vela.tensor import Tensor, QuantizationParameters
    from ethosu.vela.data_type import DataType

    dt = {"int8": DataType.int8, "uint8": DataType.uint8, "int16": DataType.int16}[dtype]
    op = Operation(getattr(Op, optype), "op")
    ifm = Tensor([1, 2, 2, 4], dt, "ifm")
    ofm = Tensor([1, 2, 2, 4], dt, "ofm")
    for t, s, z in ((ifm, s_in, zp_in), (ofm, s_out, zp_out)):
        q = QuantizationParameters()
        q.scale_f32 = np.float32(s)
        q.zero_point = np.int64(z)
        info = np.iinfo(dt.as_numpy_type())
        q.quant_min, q.quant_max = info.min, info.max
        t.quantization = q
    op.add_input_tensor(ifm)
    op.set_output_tensor(ofm)
    op.attrs.update(attrs or {})
    op.set_ifm_ofm_shapes()
    return op


def get_table(case):
    """runs the same rewrite function the graph optimiser runs and returns the 256 LUT values as Python ints"""
    velaenv.init()
    from ethosu.vela import tflite_graph_optimiser as go
    import numpy as np

    fn = case["table"]
    optype = {"sigmoid": "Sigmoid", "tanh": "Tanh", "lrelu": "LeakyRelu", "hardswish": "HardSwish", "exp": "Exp", "sqrt": "Sqrt", "gelu": "Gelu", "gelu_tanh": "Gelu"}[fn]
    attrs = {}
    if fn == "lrelu":
        attrs["alpha"] = np.float32(case["alpha"])
    if fn in ("gelu", "gelu_tanh"):
        attrs["approximate"] = fn == "gelu_tanh"
    op = _mk_op(optype, case["dtype"], case["s_in"], case["zp_in"], case["s_out"], case["zp_out"], attrs)
    if fn in ("sigmoid", "tanh"):
        r = sut("C19/table-" + fn, case, go.convert_tanh_sigmoid_to_lut, op, None, None)
    elif fn == "lrelu":
        r = sut("C19/table-" + fn, case, go.convert_lrelu_to_lut, op, None)
    elif fn == "hardswish":
        r = sut("C19/table-" + fn, case, go.convert_hardswish_to_lut, op, None, None)
    else:
        r = sut("C19/table-" + fn, case, go.convert_ops_to_lut, op, None, None)
    lut = r.activation_lut
    if lut is None:
        raise Violation("C19/table-%s/no-lut" % fn, "rewrite produced no LUT", case)
    vals = [int(v) for v in np.asarray(lut.values).flatten()]
    if len(vals) != 256:
        raise Violation("C19/table-%s/size" % fn, "LUT has %d entries" % len(vals), case)
    return vals


def _mp():
    import mpmath

    mpmath.mp.prec = 120
    return mpmath


def real_fn(name, x, mp):
    if name == "sigmoid":
        return 1 / (1 + mp.exp(-x))
    if name == "tanh":
        return mp.tanh(x)
    if name == "exp":
        return mp.exp(x)
    if name == "sqrt":
        return mp.sqrt(x)
    if name == "gelu":
        return x * (1 + mp.erf(x / mp.sqrt(2))) / 2
    if name == "gelu_tanh":
        return x * (1 + mp.tanh(mp.sqrt(2 / mp.pi) * (x + mp.mpf("0.044715") * x ** 3))) / 2
    raise AssertionError(name)


def ref_hardswish_table(dtype, s_in, zp_in, s_out, zp_out):
    import numpy as np

    s_in, s_out = float(np.float32(s_in)), float(np.float32(s_out))
    hires = (1.0 / 128.0) * s_in
    reluish_scale = 3.0 / 32768.0
    om, oe = tflref.quantize_multiplier(hires / s_out)
    rm, re_ = tflref.quantize_multiplier(hires / reluish_scale)

    def down(a):
        return I16[1] if a >= I32[1] - (1 << 15) else (a + (1 << 15)) >> 16

    om16, rm16 = down(om), down(rm)
    lo, hi = (0, 255) if dtype == "uint8" else (-128, 127)
    out = []
    for x in range(lo, hi + 1):
        v = x - zp_in
        h = v * 128
        # h is an int16 in the reference (|v| <= 255 -> |h| <= 32640)
        pre = ref_srdhm(h, om16, 16)
        r = h
        if re_ > 0:
            r = ref_shl_sat(r, re_ - 1, 16)
        r = ref_srdhm(r, rm16, 16)
        if re_ > 0:
            r = ref_shl_sat(r, 1, 16)
        if re_ < 0:
            r = ref_rdbp(r, -re_)
        r = (r + (1 << 15)) >> 1
        p = ref_sdhm16(r, pre)
        o = ref_rdbp(p, -oe) if oe < 0 else p
        o += zp_out
        out.append(min(hi, max(lo, o)))
    return out


def ref_lrelu_tables(dtype, s_in, zp_in, s_out, zp_out, alpha):
    import numpy as np

    lo, hi = (0, 255) if dtype == "uint8" else (-128, 127)
    f = np.float32
    tables = []
    for mode in ("double", "float"):
        if mode == "double":
            ident = float(f(s_in)) / float(f(s_out))
            alp = float(f(s_in)) * float(f(alpha)) / float(f(s_out))
        else:
            ident = float(f(s_in) / f(s_out))
            alp = float(f(s_in) * f(alpha) / f(s_out))
        mi, ei = tflref.quantize_multiplier(ident)
        ma, ea = tflref.quantize_multiplier(alp)
        t = []
        for x in range(lo, hi + 1):
            v = x - zp_in
            o = tflref.multiply_by_quantized_multiplier(v, mi, ei) if v >= 0 else tflref.multiply_by_quantized_multiplier(v, ma, ea)
            t.append(min(hi, max(lo, o + zp_out)))
        tables.append(t)
    return tables


def check_table(case, rec=None):
    import numpy as np

    fn, dtype = case["table"], case["dtype"]
    lo, hi = (0, 255) if dtype == "uint8" else (-128, 127)
    got = get_table(case)
    s_in, s_out = Fraction(float(np.float32(case["s_in"]))), Fraction(float(np.float32(case["s_out"])))
    zp_in, zp_out = case["zp_in"], case["zp_out"]
    if fn in ("sigmoid", "tanh", "exp", "sqrt", "gelu", "gelu_tanh"):
        mp = _mp()
        for i, x in enumerate(range(lo, hi + 1)):
            xr = s_in * (x - zp_in)
            if fn == "sqrt" and xr < 0:
                continue  # outside the real function's domain; not asserted
            xm = mp.mpf(xr.numerator) / mp.mpf(xr.denominator)
            y = real_fn(fn, xm, mp)
            q = y * mp.mpf(s_out.denominator) / mp.mpf(s_out.numerator) + zp_out
            cands = set()
            for d in (mp.mpf(2) ** -20, -mp.mpf(2) ** -20):
                v = q + d
                r = int(mp.floor(v + mp.mpf(1) / 2)) if v >= 0 else -int(mp.floor(-v + mp.mpf(1) / 2))
                cands.add(min(hi, max(lo, r)))
            if fn == "sigmoid" and abs(xr) >= 8:
                sat = Fraction(0) if xr < 0 else Fraction(1)
                cands.add(min(hi, max(lo, tflref.round_half_away(sat / s_out + zp_out))))
            if got[i] not in cands:
                raise Violation("C19/table-%s/entry" % fn, "%s table (%s s_in=%r zp_in=%d s_out=%r zp_out=%d) code %d -> %d, correctly rounded value %s (real %.6f)" % (
                    fn, dtype, case["s_in"], zp_in, case["s_out"], zp_out, x, got[i], sorted(cands), float(q)), case)
    elif fn == "lrelu":
        refs = ref_lrelu_tables(dtype, case["s_in"], zp_in, case["s_out"], zp_out, case["alpha"])
        alpha = Fraction(float(np.float32(case["alpha"])))
        for i, x in enumerate(range(lo, hi + 1)):
            if got[i] != refs[0][i] and got[i] != refs[1][i]:
                raise Violation("C19/table-lrelu/entry", "lrelu table (%s s_in=%r zp_in=%d s_out=%r zp_out=%d alpha=%r) code %d -> %d, TFLite kernel %d" % (
                    dtype, case["s_in"], zp_in, case["s_out"], zp_out, case["alpha"], x, got[i], refs[0][i]), case)
            v = s_in * (x - zp_in)
            real = (v if v >= 0 else v * alpha) / s_out + zp_out
            real = min(Fraction(hi), max(Fraction(lo), real))
            if abs(got[i] - real) >= 1 + Fraction(1, 1 << 10):
                raise Violation("C19/table-lrelu/real", "lrelu code %d -> %d but real value %.4f" % (x, got[i], float(real)), case)
    elif fn == "hardswish":
        ref = ref_hardswish_table(dtype, case["s_in"], zp_in, case["s_out"], zp_out)
        for i, x in enumerate(range(lo, hi + 1)):
            if got[i] != ref[i]:
                raise Violation("C19/table-hardswish/entry", "hard-swish table (%s s_in=%r zp_in=%d s_out=%r zp_out=%d) code %d -> %d, TFLite kernel %d" % (
                    dtype, case["s_in"], zp_in, case["s_out"], zp_out, x, got[i], ref[i]), case)
    if rec is not None:
        rec.cls("table-" + fn)
        sat = sum(1 for v in got if v in (lo, hi))
        if len(set(got)) > 1 and sat <= 128:
            rec.nontriv([case[k] for k in sorted(case)], sample=case)


def table_strategy(fns):
    from hypothesis import strategies as st
    import numpy as np

    @st.composite
    def case(draw):
        fn = draw(st.sampled_from(fns))
        dtype = draw(st.sampled_from(["int8", "int8", "uint8"])) if fn not in ("exp", "sqrt", "gelu", "gelu_tanh") else "int8"  # the fork's LUT ops are int8-only
        lo, hi = (0, 255) if dtype == "uint8" else (-128, 127)
        sc = st.one_of(st.floats(min_value=float(np.float32(1e-3)), max_value=float(np.float32(0.25)), width=32),
                       st.sampled_from([1 / 256, 1 / 128, 1 / 64, 0.0117647, 0.05, 0.1, 0.062745]))
        s_in = draw(sc)
        s_out = draw(st.one_of(sc, st.sampled_from([1 / 256, 1 / 128])))
        zp_in = draw(st.one_of(st.integers(lo, hi), st.sampled_from([lo, hi, (lo + hi + 1) // 2])))
        zp_out = draw(st.one_of(st.integers(lo, hi), st.sampled_from([lo, hi, (lo + hi + 1) // 2])))
        if fn in ("sigmoid", "tanh") and draw(st.booleans()):
            # boundary bias: the function's asymptote (+-1, i.e. 1/s_out output steps) lands next to a rounding tie and is not saturated away; the input range reaches the
            # region where the function is within 1e-3 of the asymptote (any clamping / early saturation of the real function shows up there first)
            n_steps = draw(st.integers(2, hi - lo - 1))
            s_out = 1.0 / (n_steps + 0.5 + draw(st.floats(min_value=-0.12, max_value=0.12)))
            zp_out = draw(st.integers(lo, hi - n_steps - 1)) if fn == "sigmoid" or draw(st.booleans()) else draw(st.integers(lo + n_steps + 1, hi)) if lo + n_steps + 1 <= hi else zp_out
            s_in = draw(st.floats(min_value=float(np.float32(0.03)), max_value=0.25, width=32))
        c = dict(kind="table", table=fn, dtype=dtype, s_in=float(np.float32(s_in)), zp_in=zp_in, s_out=float(np.float32(s_out)), zp_out=zp_out)
        if fn == "lrelu":
            c["alpha"] = float(np.float32(draw(st.one_of(st.floats(min_value=-2, max_value=2, width=32), st.sampled_from([0.01, 0.1, 0.2, 0.3, -0.5, 1.5, 0.0])))))
        if fn == "sqrt":
            c["zp_in"] = lo  # keep the dequantised input inside sqrt's domain for every code
        return c

    return case()


def tables(ctx, arg, rec):
    shard, n, fns = arg
    run_hypothesis(rec, table_strategy(fns), check_table, n, sub_seed(ctx.seed, PROPERTY, "tables", shard, ",".join(fns)), shrink=not ctx.quick)


# ------------------------- optimise_quantize --------------------------------------------------------------
def check_requant(case, rec=None):
    velaenv.init()
    import numpy as np
    from ethosu.vela import tflite_graph_optimiser as go
    from ethosu.vela.operation import Op, Operation
    from ethosu.vela.tensor import create_const_tensor, QuantizationParameters, Tensor
    from ethosu.vela.data_type import DataType

    dt = case["dtype"]
    D = {"int8": DataType.int8, "int16": DataType.int16}[dt]
    npd = {"int8": np.int8, "int16": np.int16}[dt]
    info = np.iinfo(npd)
    vals = np.array(case["values"], npd)

    def quant(s, z):
        q = QuantizationParameters()
        q.scale_f32 = np.float32(s)
        q.zero_point = np.int64(z)
        q.quant_min, q.quant_max = info.min, info.max
        return q

    ifm = create_const_tensor("c", list(vals.shape), D, vals, quantization=quant(case["s_in"], case["zp_in"]))
    ofm = Tensor(list(vals.shape), D, "o")
    ofm.quantization = quant(case["s_out"], case["zp_out"])
    op = Operation(Op.Quantize, "q")
    op.add_input_tensor(ifm)
    op.set_output_tensor(ofm)
    op.run_on_npu = True
    sut("C19/optimise_quantize", case, go.optimise_quantize, op, None, None)
    if op.type != Op.Const or ofm.values is None:
        raise Violation("C19/optimise_quantize/not-folded", "constant quantize was not folded", case)
    got = [int(v) for v in np.asarray(ofm.values).flatten()]
    eff = float(np.float32(case["s_in"])) / float(np.float32(case["s_out"]))
    m, e = tflref.quantize_multiplier(eff)
    for v, g in zip(case["values"], got):
        want = tflref.multiply_by_quantized_multiplier(v - case["zp_in"], m, e) + case["zp_out"]
        want = min(int(info.max), max(int(info.min), want))
        if g != want:
            raise Violation("C19/optimise_quantize/value", "%s constant %d (scale %r zp %d -> scale %r zp %d) folded to %d, TFLite Requantize gives %d" % (
                dt, v, case["s_in"], case["zp_in"], case["s_out"], case["zp_out"], g, want), case)
    if rec is not None:
        rec.cls("requant-" + dt)
        if len(set(got)) > 1:
            rec.nontriv([case[k] if k != "values" else tuple(case[k]) for k in sorted(case)], sample=case)


def requant_strategy():
    from hypothesis import strategies as st
    import numpy as np

    @st.composite
    def case(draw):
        dt = draw(st.sampled_from(["int8", "int16"]))
        info = np.iinfo({"int8": np.int8, "int16": np.int16}[dt])
        sc = st.floats(min_value=float(np.float32(1e-4)), max_value=float(np.float32(2.0)), width=32)
        vals = draw(st.lists(st.one_of(st.integers(int(info.min), int(info.max)), st.sampled_from([int(info.min), int(info.max), 0, 1, -1])), min_size=1, max_size=12))
        zp = st.integers(-128, 127) if dt == "int8" else st.sampled_from([0, 0, 0, 5, -3])
        return dict(kind="requant", dtype=dt, values=vals, s_in=float(np.float32(draw(sc))), zp_in=draw(zp), s_out=float(np.float32(draw(sc))), zp_out=draw(zp))

    return case()


def requant(ctx, arg, rec):
    shard, n = arg
    run_hypothesis(rec, requant_strategy(), check_requant, n, sub_seed(ctx.seed, PROPERTY, "requant", shard), shrink=True)


# ----------------------------------------------------------------------------------------------------------
def parts(ctx):
    q = ctx.quick
    ps = []
    ps += [Part("pairs8_%02d" % i, helpers_exhaustive, ("pairs8", i, 8)) for i in range(8)]
    ps += [Part("single16_%02d" % i, helpers_exhaustive, ("single16", i, 8 if not q else 64)) for i in range(8)]
    ps += [Part("helpers%02d" % i, helpers_random, (i, 2500 if q else 150000)) for i in range(8)]
    ps += [Part("exp%02d" % i, exp_lattice, (i, 4, 400009 if q else 4099)) for i in range(4)]
    groups = [["sigmoid", "tanh"], ["lrelu"], ["hardswish"], ["exp", "sqrt", "gelu", "gelu_tanh"]]
    for gi, g in enumerate(groups):
        ps += [Part("tables_%s_%d" % (g[0], i), tables, (i, 120 if q else 3000, g)) for i in range(4)]
    ps += [Part("requant%d" % i, requant, (i, 300 if q else 20000)) for i in range(4)]
    return ps


def replay(ctx, case):
    k = case.get("kind")
    if k == "helper":
        oracle_helper(case, None)
    elif k == "table":
        check_table(case, None)
    elif k == "requant":
        check_requant(case, None)
    else:
        raise Violation("C19/replay", "unknown case kind", case)

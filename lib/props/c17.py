"""C17 - the driver payload frames the command stream correctly (part A: npu_create_driver_payload on generated
word lists; part B: command_stream tensors of compiled networks, see e2e)."""
import struct

from runner import Part, Violation, sub_seed, run_hypothesis, sut
import hw
import payload
import velaenv

PROPERTY = "C17"
RULE = (
    "word lists with lengths from {0..300 dense, 2^k-1/2^k/2^k+1 up to 2^20 (quick) or 2^23 (thorough), 65535/65536/65537, random up to 70000}, "
    "contents random 32-bit incl. words that look like driver-action tags, x 6 accelerators, through api.npu_create_driver_payload; "
    "plus one long list per high length bit (2^21+3, 2^22+5, 2^23+7), 2^24-1 (accepted) and 2^24 (rejected). Part B: every command_stream tensor of generated compiled networks. "
    "non-trivial = length > 65535 (both length sub-fields used) or a network artefact; distinct = (accelerator, length, hash of words)."
)
ASSUMPTIONS = ["config/id word layout and accelerator table pinned in lib/hw.py (DESIGN.md Appendix A)"]


def _api():
    velaenv.init()
    from ethosu.vela import api
    from ethosu.vela.errors import VelaError

    return api, VelaError


def make_words(n, mode, seed):
    import numpy as np

    rng = np.random.default_rng(seed)
    if mode == 0:
        w = rng.integers(0, 1 << 32, size=n, dtype=np.uint64)
    elif mode == 1:  # look like driver action tags / fourcc
        w = rng.choice(np.array([1, 2, 5, 0x31504F43, 0x00FF0002, 0xFFFFFFFF, 0, 0x00010002], dtype=np.uint64), size=n)
    else:
        w = np.full(n, (seed * 2654435761) & 0xFFFFFFFF, dtype=np.uint64)
    return [int(x) for x in w]


def oracle(case, rec=None):
    api, VelaError = _api()
    n, mode, seed, accel = case["n"], case["mode"], case["seed"], case["accel"]
    words = make_words(n, mode, seed)
    acc = getattr(api.NpuAccelerator, hw.ACCELS[accel]["enum"])
    try:
        data = sut("C17", case, api.npu_create_driver_payload, words, acc, allowed=(VelaError,))
    except VelaError as e:
        if n >= hw.MAX_STREAM_WORDS:
            if rec is not None:
                rec.cls("rejected-too-long")
                rec.nontriv([accel, n, "rejected"], sample=dict(case, outcome="VelaError"))
            return
        raise Violation("C17/rejected-valid", "length %d rejected: %s" % (n, e), case)
    if n >= hw.MAX_STREAM_WORDS:
        raise Violation("C17/accepted-too-long", "length %d >= 2^24 accepted" % n, case)
    if not isinstance(data, (bytes, bytearray)):
        raise Violation("C17/type", "payload is %s" % type(data).__name__, case)
    try:
        info, cmd = payload.check_payload(bytes(data), accel)
    except payload.PayloadError as e:
        raise Violation("C17/frame", str(e), case)
    if cmd != struct.pack("<%dI" % n, *words):
        raise Violation("C17/words", "command words differ from the input", case)
    if rec is not None:
        rec.cls(accel, "len>65535" if n > 65535 else "len<=65535")
        if n > 65535:
            rec.nontriv([accel, n, mode, seed], sample=dict(case, payload_bytes=len(data), nops=info["nops"]))


def lengths(quick):
    ls = set(range(0, 301))
    kmax = 20 if quick else 23
    for k in range(1, kmax + 1):
        ls.update((2 ** k - 1, 2 ** k, 2 ** k + 1))
    ls.update((65535, 65536, 65537, 131071, 131072, 70000, 196608, 262143))
    return sorted(ls)


def enum_part(ctx, arg, rec):
    shard, nshards = arg
    i = 0
    for n in lengths(ctx.quick):
        for accel in hw.ACCEL_NAMES:
            i += 1
            if i % nshards != shard:
                continue
            case = dict(n=n, mode=(n + i) % 3, seed=sub_seed(ctx.seed, n, accel) % 100000, accel=accel)
            rec.case()
            try:
                rec.check(oracle, case, rec)
            except Violation as v:
                rec.violation(v)
                return


def hyp_part(ctx, arg, rec):
    from hypothesis import strategies as st

    shard, count = arg
    strat = st.fixed_dictionaries(dict(
        n=st.one_of(st.integers(0, 4000), st.integers(65000, 70000), st.integers(0, 300000)),
        mode=st.integers(0, 2), seed=st.integers(0, 99999), accel=st.sampled_from(hw.ACCEL_NAMES)))
    run_hypothesis(rec, strat, oracle, count, sub_seed(ctx.seed, PROPERTY, shard), shrink=True)


def giants(ctx, arg, rec):
    for n in arg:
        case = dict(n=n, mode=2, seed=7, accel="ethos-u65-256")
        rec.case()
        try:
            rec.check(oracle, case, rec)
        except Violation as v:
            rec.violation(v)


def parts(ctx):
    ps = [Part("enum%02d" % i, enum_part, (i, 8)) for i in range(8)]
    ps += [Part("hyp%02d" % i, hyp_part, (i, 120 if ctx.quick else 2500)) for i in range(8)]
    if not ctx.quick:
        ps += [Part("giant%d" % i, giants, [n]) for i, n in enumerate((2 ** 24 - 1, 2 ** 24, 2 ** 24 + 1))]
    else:
        # one length per high bit of the 24-bit field (constant words, so the lists are cheap) + the first rejected length
        ps += [Part("big%d" % i, giants, [n]) for i, n in enumerate((2 ** 21 + 3, 2 ** 22 + 5, 2 ** 23 + 7, 2 ** 24 - 1, 2 ** 24))]
    try:
        import props.e2e_parts as e2e

        ps += e2e.parts_for(ctx, PROPERTY)
    except ImportError:
        pass
    return ps


def replay(ctx, case):
    if "spec" in case:
        import props.e2e_parts as e2e

        return e2e.replay(ctx, PROPERTY, case)
    oracle(case, None)

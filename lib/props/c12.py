"""C12 - the offline arena plan is self-consistent and reported memory is sufficient (decided on output files)."""
import re

from runner import Part, Violation, sub_seed, run_hypothesis, HarnessError
import csdec
import e2e
import footprint as fpm
import tflgen
import vmodel

PROPERTY = "C12"
RULE = (
    "generated networks with CPU/NPU interleavings (tflgen 'cpumix' and 'wide': float/custom/unsupported operators between NPU segments, several Ethos-U operators, "
    "residual/concat shapes) x memory modes x allocators x --cpu-tensor-alignment {16..256} x arena cache sizes; from the output file alone: live interval of every "
    "arena tensor under the file's operator order, pairwise overlap of byte ranges vs intervals, alignment of CPU-visible tensors, scratch at offset 0 spanning every "
    "operand of its custom operator and every region-1 byte the stream touches, reported SRAM/DRAM (console summary and summary CSV) >= the extents the plan needs. "
    "non-trivial = >=3 arena tensors with address reuse, or >=2 Ethos-U operators; distinct = hash(network, configuration)."
)
ASSUMPTIONS = [
    "liveness from the file: a tensor is live from its producing operator (-1 for subgraph inputs) to its last consumer (end of graph for subgraph outputs), inclusive",
    "an input and an output of the same Ethos-U operator may share bytes (in-place operation inside the NPU subgraph is decided by C03); such pairs are counted",
    "a CPU-resident RESHAPE/SQUEEZE/EXPAND_DIMS may alias its operand exactly (Vela declares memory-only operators' tensors equivalent)",
    "scratch_fast is excluded from the overlap check (the driver substitutes the dedicated SRAM; Vela publishes it at offset 0) and so is scratch itself (it is the arena view)",
    "reported memory: SRAM >= arena extent when the arena is in SRAM (Shared_Sram, Sram_Only), SRAM >= scratch_fast extent and DRAM >= arena extent in Dedicated_Sram",
]


def intervals(art):
    ops = art.sg["ops"]
    T = art.tensors
    prod, last = {}, {}
    for i in art.sg["inputs"]:
        prod[i] = -1
    for k, o in enumerate(ops):
        for t in o["outputs"]:
            prod.setdefault(t, k)
        ins = o["inputs"][4:] if o["custom_code"] == "ethos-u" else o["inputs"]
        for t in ins:
            if t >= 0:
                last[t] = k
    for t in art.sg["outputs"]:
        last[t] = len(ops)
    for i, t in enumerate(T):
        if t.get("is_variable") and t["data"] is None and i in last:
            # state tensors keep their contents from one inference to the next: live before the first operator and after the last
            prod[i] = -1
            last[i] = len(ops)
    return prod, last


def oracle(case, rec=None):
    import artefact

    try:
        art, res = e2e.compile_case(case)
    except (artefact.ArtefactError, vmodel.ModelError) as e:
        raise Violation("C12/artefact-malformed", "%s: %s" % (type(e).__name__, e), case)
    if res.get("harness"):
        raise HarnessError(res["exc"][3])
    if art is None:
        return
    T = art.tensors
    if art.alloc is None:
        if art.npu_ops:
            raise Violation("C12/no-metadata", "output model with Ethos-U operators has no OfflineMemoryAllocation metadata", case)
        return
    if art.alloc["count"] != len(T) or len(art.alloc["offsets"]) != len(T):
        raise Violation("C12/metadata-count", "metadata lists %d offsets for %d tensors" % (len(art.alloc["offsets"]), len(T)), case)
    prod, last = intervals(art)
    special = set()
    for nop in art.npu_ops:
        special.update((nop.scratch_i, nop.fast_i))
    align = case["cfg"]["cpu_tensor_alignment"]
    arena = []
    for i, t in enumerate(T):
        off = art.offset(i)
        if t["data"] is not None:
            if off != -1:
                raise Violation("C12/constant-in-arena", "constant tensor '%s' has arena offset %d" % (t["name"], off), case)
            continue
        if off is None or off < 0:
            if i in prod or i in last:
                raise Violation("C12/unplaced", "tensor '%s' is used by the graph but has no arena offset" % t["name"], case)
            continue
        if off % align:
            raise Violation("C12/alignment", "tensor '%s' at arena offset %d violates --cpu-tensor-alignment %d" % (t["name"], off, align), case)
        if i in special:
            continue
        if i not in prod:
            continue  # never produced and not an input (unused)
        arena.append((off, off + art.nbytes(i), prod[i], last.get(i, prod[i]), i))
    npu_io = {}
    for k, o in enumerate(art.sg["ops"]):
        if o["custom_code"] == "ethos-u":
            npu_io[k] = (set(o["inputs"][4:]), set(o["outputs"]))
    # alias groups: tensors connected through CPU-resident memory-only operators
    alias = {}
    for k, o in enumerate(art.sg["ops"]):
        if o["code"] in ("RESHAPE", "SQUEEZE", "EXPAND_DIMS") and o["inputs"] and o["outputs"]:
            a, b = o["inputs"][0], o["outputs"][0]
            g = alias.get(a, ("g", a))
            alias[a] = g
            alias[b] = g
    _wcache = {}

    def npu_writes(k):
        if k not in _wcache:
            nop = [n for n in art.npu_ops if n.index == k][0]
            iv = []
            for c in nop.cmds():
                if c.kind in ("conv", "depthwise", "pool", "elementwise", "dma"):
                    iv += fpm.op_footprints(csdec.fields(c), art.accel)[1].get(1, [])
            _wcache[k] = fpm.merge(iv)
        return _wcache[k]

    arena.sort()
    inplace = 0
    reuse = False
    for x in range(len(arena)):
        a0, a1, ap, al, ai = arena[x]
        for y in range(x + 1, len(arena)):
            b0, b1, bp, bl, bi = arena[y]
            if b0 >= a1:
                break
            reuse = True
            lo, hi = max(ap, bp), min(al, bl)
            if lo <= hi:
                # both live at operator indices lo..hi
                if lo in npu_io and ((ai in npu_io[lo][0] and bi in npu_io[lo][1]) or (bi in npu_io[lo][0] and ai in npu_io[lo][1])):
                    # operand and result of the same Ethos-U operator share bytes
                    if lo == hi:
                        inplace += 1
                        continue
                    # the operand stays live after the operator: only harmless if the stream never writes the shared bytes (pure aliasing, e.g. a reshape)
                    w = npu_writes(lo)
                    if not fpm.intersects(w, [(max(a0, b0), min(a1, b1))]):
                        inplace += 1
                        continue
                if (a0, a1) == (b0, b1) and alias.get(ai) == alias.get(bi) and alias.get(ai) is not None:
                    continue  # memory-only operator chain: the result deliberately aliases its operand (same bytes, same extent)
                raise Violation("C12/overlap", "'%s' [%d,%d) live over operators %d..%d overlaps '%s' [%d,%d) live over operators %d..%d" % (
                    T[ai]["name"], a0, a1, ap, al, T[bi]["name"], b0, b1, bp, bl), case)
    extent = max([a[1] for a in arena] + [0])
    for nop in art.npu_ops:
        so = art.offset(nop.scratch_i)
        if so != 0:
            raise Violation("C12/scratch-offset", "scratch tensor at arena offset %s" % so, case)
        ssize = art.nbytes(nop.scratch_i)
        for ti in list(nop.inputs) + list(nop.outputs):
            off = art.offset(ti)
            if T[ti]["data"] is None and off is not None and off >= 0 and off + art.nbytes(ti) > ssize:
                raise Violation("C12/scratch-span/operand", "operand '%s' of Ethos-U operator %d ends at arena byte %d but scratch spans %d" % (T[ti]["name"], nop.index, off + art.nbytes(ti), ssize), case)
        try:
            for c in nop.cmds():
                if c.kind in ("conv", "depthwise", "pool", "elementwise", "dma"):
                    r, w = fpm.op_footprints(csdec.fields(c), art.accel)
                    for fp in (r, w):
                        iv = fp.get(1)
                        if iv and iv[-1][1] > ssize:
                            import constructs

                            raise Violation("C12/scratch-span/stream", "%s #%d touches arena byte %d but scratch spans %d" % (c.kind, c.index, iv[-1][1], ssize), case, tags=constructs.tags(case["spec"]))
        except csdec.DecodeError as e:
            raise Violation("C12/undecodable", str(e), case)
    # reported numbers
    out = res["stdout"]
    rep = {}
    for m in re.finditer(r"^Total (SRAM|DRAM|On-chip Flash|Off-chip Flash) used\s+([0-9.]+) KiB", out, re.M):
        rep[m.group(1)] = float(m.group(2)) * 1024
    csv = {}
    if res.get("summary"):
        lines = [l for l in res["summary"].strip().splitlines() if l.strip()]
        if len(lines) >= 2:
            hdr, row = lines[0].split(","), lines[1].split(",")
            csv = dict(zip(hdr, row))
    mm = case["cfg"]["memory_mode"]
    u65 = "u65" in art.accel
    dedicated = mm == "Dedicated_Sram" or (mm == "default" and u65)
    fast_ext = max([art.nbytes(n.fast_i) for n in art.npu_ops] + [0])
    need = {}
    if art.npu_ops:
        if dedicated:
            need["DRAM"] = extent
            need["SRAM"] = fast_ext
        else:
            need["SRAM"] = extent
    for area, n in need.items():
        if area in rep and rep[area] + 5.12 < n:  # console prints two decimals of KiB
            raise Violation("C12/report/console-%s" % area, "console reports %.0f bytes of %s but the plan needs %d" % (rep[area], area, n), case)
        key = {"SRAM": "sram_memory_used", "DRAM": "dram_memory_used"}[area]
        if key in csv:
            try:
                v = float(csv[key]) * 1024
            except ValueError:
                raise Violation("C12/report/csv-format", "%s = %r" % (key, csv[key]), case)
            if v + 1 < n:
                raise Violation("C12/report/csv-%s" % area, "summary CSV reports %.0f bytes of %s but the plan needs %d" % (v, area, n), case)
            if area in rep and abs(v - rep[area]) > 5.12 + 1:
                raise Violation("C12/report/disagree", "console %.0f vs CSV %.0f bytes of %s" % (rep[area], v, area), case)
    if rec is not None:
        rec.cls("npu-ops-%d" % min(len(art.npu_ops), 3), "dedicated" if dedicated else "shared", "align-%d" % align, "inplace-npu-pairs" if inplace else "no-inplace")
        if (len(arena) >= 3 and reuse) or len(art.npu_ops) >= 2:
            rec.nontriv([case], sample=dict(ops=[o.get("custom_code") or o["code"] for o in case["spec"]["ops"]], cfg=case["cfg"], arena_tensors=len(arena), extent=extent,
                                            reported=rep, ethos_u_operators=len(art.npu_ops)))


def strategy(profile):
    from hypothesis import strategies as st

    @st.composite
    def case(draw):
        return dict(kind="e2e", spec=draw(tflgen.network(profile, max_ops=7, big=draw(st.booleans()))), cfg=draw(tflgen.config()))

    return case()


def run(ctx, arg, rec):
    shard, n, profile = arg
    run_hypothesis(rec, strategy(profile), oracle, n, sub_seed(ctx.seed, PROPERTY, profile, shard))


def parts(ctx):
    q = ctx.quick
    return [Part("cpumix%02d" % i, run, (i, 40 if q else 1500, "cpumix")) for i in range(8)] + [Part("wide%02d" % i, run, (i, 40 if q else 1200, "wide")) for i in range(8)] + [
        Part("residual%02d" % i, run, (i, 40 if q else 1200, "residual")) for i in range(4)] + [Part("fanout%02d" % i, run, (i, 30 if q else 1000, "fanout")) for i in range(2)] + [
        Part("rnn%02d" % i, run, (i, 16 if q else 500, "rnn")) for i in range(2)]


def replay(ctx, case):
    oracle(case, None)

"""C04 - conflicting NPU/DMA accesses are always separated by a wait or block dependency."""
import copy

from runner import Part, Violation, sub_seed, run_hypothesis, sut
import csdec
import hazard
import hw
import velaenv
import props.c06 as c06

PROPERTY = "C04"
RULE = (
    "part A: Hypothesis lists of 2-12 NpuOperations over a pool of 4-7 buffers per run (shared geometry, so that overlaps are frequent): DMA between pool buffers / "
    "flash / SHRAM LUT slots, conv / depthwise / pool / elementwise whose IFM, IFM2 and OFM are pool buffers or row ranges of them (NHWC/NHCWB16, int8/int16), LUT "
    "activations, block configs from npu_find_block_configs, on ethos-u55 (1 outstanding DMA, 16/24/48 banks) and ethos-u65 (2); oracle = explicit execution "
    "model (H7-H9) evaluated on the emitted words with exact byte footprints. part B (e2e_parts): every stream of generated networks. "
    "non-trivial = sequence with >=1 cross-queue pair whose footprints overlap, or a kernel pair with OFM->IFM overlap and a programmed BLOCKDEP in 1..3; "
    "distinct = hash of the sequence."
)
ASSUMPTIONS = [
    "H7: kernel operations and DMAs are issued in order to two queues; at most 2 kernel operations and 1 (U55) / 2 (U65) DMAs are outstanding; "
    "KERNEL_WAIT n / DMA_WAIT n block until at most n remain",
    "H8: same-queue operations are ordered; consecutive kernel operations overlap only at block-job granularity: when job j of B starts at most BLOCKDEP-j "
    "trailing block jobs of A are unfinished; jobs traverse depth, then width, then height (documented by get_offset_block_coords); only RAW (B reads what A "
    "writes) is a hazard between kernel operations - WAR/WAW overlaps there are counted and reported, not asserted (in-order pipeline)",
    "H9: a kernel operation may write every SHRAM bank below the LUT area; on 16-bank accelerators an operation without LUT may overwrite the LUT area, so "
    "BLOCKDEP must be 0 when the previous operation still uses a LUT the next one may overwrite",
    "footprints are exact per element (NHWC) / per 16-channel brick (NHCWB16); Vela's own coarser ranges are a superset, so a correct tree never alarms",
]


def pool_strategy(draw, st, accel):
    """a pool of buffers with common height/width so that producers/consumers chain"""
    H, W = draw(st.sampled_from([(8, 8), (12, 6), (16, 4), (6, 16)]))
    n = draw(st.integers(4, 7))
    bufs = []
    addr = 0
    for i in range(n):
        dtype = draw(st.sampled_from(["int8", "int8", "int8", "int16"]))
        esz = 1 if dtype == "int8" else 2
        d = draw(st.sampled_from([8, 16, 16, 24, 32]))
        layout = draw(st.sampled_from(["NHWC", "NHCWB16"]))
        if layout == "NHWC":
            sx = d * esz
            sy = W * sx
            sc = esz
            size = H * sy
        else:
            sx = 16 * esz
            sc = sx * W
            sy = sc * (-(-d // 16))
            size = H * sy
        # place: mostly disjoint, sometimes overlapping the previous buffer (address reuse by the allocator)
        if bufs and draw(st.integers(0, 4)) == 0:
            base = bufs[-1]["base"] + 16 * draw(st.integers(0, max(1, bufs[-1]["size"] // 32)))
        else:
            base = addr
        base = -(-base // 16) * 16
        bufs.append(dict(base=base, H=H, W=W, d=d, dtype=dtype, layout=layout, strides=[sy, sx, sc], size=size, region=1))
        addr = max(addr, base + size) + 16 * draw(st.integers(0, 4))
    return bufs


def fm_of(buf, r0, r1, depth=None):
    d = depth or buf["d"]
    return dict(dtype=buf["dtype"], region=buf["region"], shape=[r1 - r0, buf["W"], d], layout=buf["layout"],
                tiles=[r1 - r0, 0, buf["W"], [buf["base"] + r0 * buf["strides"][0], 0, 0, 0]], zp=0 if buf["dtype"] == "int16" else 3, scale=0.05, strides=list(buf["strides"]))


def seq_strategy():
    from hypothesis import strategies as st

    @st.composite
    def case(draw):
        accel = draw(st.sampled_from(hw.ACCEL_NAMES))
        bufs = pool_strategy(draw, st, accel)
        H = bufs[0]["H"]
        n = draw(st.integers(2, 12))
        ops = []
        lut_base = hw.lut_start_bank(accel, True) * 1024
        last_out = None
        for i in range(n):
            kind = draw(st.sampled_from(["conv", "conv", "depthwise", "pool", "elementwise", "elementwise", "dma", "dma", "lutdma"]))
            if kind == "lutdma":
                slot = draw(st.integers(0, 7))
                ops.append(dict(kind="dma", src=[0, 16 * draw(st.integers(0, 64)), 256], dest=[csdec.SHRAM_REGION, lut_base + 256 * slot, 256]))
                continue
            if kind == "dma":
                b = draw(st.sampled_from(bufs))
                r0 = draw(st.integers(0, H - 1))
                r1 = draw(st.integers(r0 + 1, H))
                nbytes = (r1 - r0) * b["strides"][0]
                nbytes = -(-nbytes // 16) * 16
                if draw(st.booleans()):
                    src = [0, 16 * draw(st.integers(0, 4096)), nbytes]
                else:
                    sb = draw(st.sampled_from(bufs))
                    src = [sb["region"], sb["base"], min(nbytes, -(-sb["size"] // 16) * 16)]
                    nbytes = src[2]
                ops.append(dict(kind="dma", src=src, dest=[b["region"], b["base"] + r0 * b["strides"][0], nbytes]))
                continue
            # kernel op: input = previous output (chaining) or a random buffer
            src = last_out if (last_out is not None and draw(st.integers(0, 2)) != 0) else draw(st.sampled_from(bufs))
            cands = [b for b in bufs if b is not src] or bufs
            dst = draw(st.sampled_from(cands)) if draw(st.integers(0, 5)) else src  # sometimes in place
            r0 = draw(st.integers(0, H - 1))
            r1 = draw(st.integers(r0 + 1, H))
            s = dict(kind=kind, block_index=draw(st.integers(0, 40)), rounding="TFL")
            if kind in ("conv", "depthwise", "pool"):
                k = draw(st.sampled_from([1, 1, 3, 3, 2]))
                sy = draw(st.sampled_from([1, 1, 1, 2]))
                rows_out = r1 - r0
                # SAME-like padding vertically so that the IFM row range is a stripe of the source buffer
                dk = k
                pt = draw(st.integers(0, dk - 1))
                need = (rows_out - 1) * sy + dk - pt
                i0 = draw(st.integers(0, max(0, H - 1)))
                i1 = min(H, i0 + need)
                pb = need - (i1 - i0)
                if pb > dk - 1 or i1 <= i0:
                    pt, pb, sy, k, dk = 0, 0, 1, 1, 1
                    i0 = min(i0, H - rows_out)
                    i1 = i0 + rows_out
                pl = (dk - 1) // 2
                pr = dk - 1 - pl
                if kind == "conv":
                    ifm = fm_of(src, i0, i1)
                    ofm = fm_of(dst, r0, r1)
                else:
                    dd = min(src["d"], dst["d"])
                    ifm = fm_of(src, i0, i1, dd)
                    ofm = fm_of(dst, r0, r1, dd)
                if ifm["dtype"] != ofm["dtype"] and kind == "pool":
                    ofm["dtype"] = ifm["dtype"]
                    if c06.DT[ifm["dtype"]][0] // 8 != (1 if dst["dtype"] == "int8" else 2):
                        continue
                s.update(kernel=[k, k, 1, sy, 1, 1], padding=[pt, pl, pb, pr], upscale="NONE", part_kernel=draw(st.booleans()), ifm=ifm, ofm=ofm)
                if kind == "pool":
                    s["mode"] = draw(st.sampled_from(["MAX", "AVERAGE"]))
                else:
                    s["weights"] = [[0, 16 * draw(st.integers(0, 1000)), 16 * draw(st.integers(1, 200))] for _ in range(hw.ACCELS[accel]["cores"])]
                    s["biases"] = [[0, 16 * draw(st.integers(1000, 2000)), 16 * draw(st.integers(1, 20))] for _ in range(hw.ACCELS[accel]["cores"])]
                    if draw(st.integers(0, 4)) == 0:  # weights buffered in the arena (DMA destination)
                        wb = draw(st.sampled_from(bufs))
                        s["weights"] = [[wb["region"], wb["base"], 16 * max(1, min(wb["size"] // 16, 20))]]
                        s["weights"] = s["weights"] * hw.ACCELS[accel]["cores"]
            else:
                mode = draw(st.sampled_from(["ADD", "MUL", "ABS", "MAX"]))
                dd = min(src["d"], dst["d"])
                rows = r1 - r0
                i0 = draw(st.integers(0, H - rows))
                ifm = fm_of(src, i0, i0 + rows, dd)
                ofm = fm_of(dst, r0, r1, dd)
                ofm["dtype"] = ifm["dtype"] if c06.DT[ifm["dtype"]][0] // 8 == (1 if dst["dtype"] == "int8" else 2) else ofm["dtype"]
                if c06.DT[ifm["dtype"]][0] != c06.DT[ofm["dtype"]][0]:
                    continue
                s.update(mode=mode, ifm=ifm, ofm=ofm)
                if mode != "ABS":
                    b2 = draw(st.sampled_from(bufs))
                    if b2["dtype"] != src["dtype"]:
                        b2 = src
                    j0 = draw(st.integers(0, H - rows))
                    s["ifm2"] = fm_of(b2, j0, j0 + rows, min(dd, b2["d"]))
                    if rows >= 2 and draw(st.integers(0, 3)) == 0:
                        # one row of the first operand's own buffer broadcast over it (x - x[k]): the second operand's byte range is nested inside the first one's,
                        # and a transfer may touch the enclosing range above or below it
                        j0 = draw(st.integers(i0, i0 + rows - 1))
                        s["ifm2"] = fm_of(src, j0, j0 + 1, dd)
                    if s["ifm2"]["shape"][2] != dd:
                        s["ifm2"]["shape"][2] = 1 if s["ifm2"]["shape"][2] < dd else dd
                        if s["ifm2"]["shape"][2] == 1 and b2["layout"] == "NHWC":
                            s["ifm2"]["strides"] = None
                            s["ifm2"]["layout"] = "NHWC"
                    s["reversed"] = False
            if draw(st.integers(0, 3)) == 0 and c06.DT[s["ifm"]["dtype"]][0] == 8:
                s["activation"] = dict(type="TABLE_LOOKUP", lut=draw(st.integers(0, 7)), min=None, max=None)
            ops.append(s)
            last_out = dst
        if len(ops) < 2:
            ops.append(dict(kind="dma", src=[0, 0, 256], dest=[1, bufs[0]["base"], 256]))
        return dict(kind="sequence", accel=accel, ops=ops)

    return case()


def chain_strategy():
    """producer -> consumer pairs on whole feature maps: every combination of vertical/horizontal stride and the four pads of the consumer, tall maps,
    small block heights - the geometry BLOCKDEP is computed from"""
    from hypothesis import strategies as st

    @st.composite
    def case(draw):
        accel = draw(st.sampled_from(hw.ACCEL_NAMES))
        H = draw(st.integers(4, 40))
        W = draw(st.sampled_from([4, 8, 8, 16, 9]))
        d1, d2, d3 = draw(st.sampled_from([8, 16, 32])), draw(st.sampled_from([8, 16, 32])), draw(st.sampled_from([8, 16]))
        layout = draw(st.sampled_from(["NHWC", "NHCWB16"]))

        def fm(base, h, w, d):
            return dict(dtype="int8", region=1, shape=[h, w, d], layout=layout, tiles=[h, 0, w, [base, 0, 0, 0]], zp=0, scale=0.05, strides=None)

        # kernel height and width independently, also beyond the 8x8 sub-kernel (decomposed by the hardware inside a block job), with dilation
        kh = draw(st.sampled_from([1, 2, 3, 3, 1, 5, 7, 9, 12]))
        kw = draw(st.sampled_from([1, 2, 3, 3, 1, 5, 7, 9, 12]))
        dy, dx = draw(st.sampled_from([1, 1, 1, 2])), draw(st.sampled_from([1, 1, 1, 2]))
        if draw(st.booleans()):
            kw, dx = kh, dy
        sy, sx = draw(st.sampled_from([1, 2, 2, 3])), draw(st.sampled_from([1, 2]))
        dkh, dkw = (kh - 1) * dy + 1, (kw - 1) * dx + 1
        pt, pb = draw(st.integers(0, min(dkh - 1, 3))), draw(st.integers(0, min(dkh - 1, 3)))
        pl, pr = draw(st.integers(0, min(dkw - 1, 3))), draw(st.integers(0, min(dkw - 1, 3)))
        if dkh > H or dkw > W:
            H, W = max(H, dkh + draw(st.integers(0, 6))), max(W, dkw + draw(st.integers(0, 6)))
        oh = (H + pt + pb - dkh) // sy + 1
        ow = (W + pl + pr - dkw) // sx + 1
        if oh < 1 or ow < 1:
            kh, kw, dy, dx, dkh, dkw, sy, sx, pt, pl, pb, pr = 1, 1, 1, 1, 1, 1, 1, 1, 0, 0, 0, 0
            oh, ow = H, W
        # shrink the input rows actually needed so that the hardware-derived extent equals the map
        H2 = (oh - 1) * sy + dkh - pt - pb
        W2 = (ow - 1) * sx + dkw - pl - pr
        nc = hw.ACCELS[accel]["cores"]
        a_kind = draw(st.sampled_from(["conv", "conv", "elementwise"]))
        X = fm(0x10000, H2, W2, d2)
        if a_kind == "conv":
            A = dict(kind="conv", block_index=draw(st.integers(0, 60)), rounding="TFL", kernel=[1, 1, 1, 1, 1, 1], padding=[0, 0, 0, 0], upscale="NONE", part_kernel=False,
                     ifm=fm(0x0, H2, W2, d1), ofm=X, weights=[[0, 0, 160]] * nc, biases=[[0, 4096, 160]] * nc)
        else:
            A = dict(kind="elementwise", block_index=draw(st.integers(0, 60)), rounding="TFL", mode="ABS", ifm=fm(0x0, H2, W2, d2), ofm=X)
        b_kind = draw(st.sampled_from(["conv", "conv", "depthwise", "pool"]))
        if b_kind == "pool":
            dy = dx = 1
            pt, pb, pl, pr = min(pt, kh - 1), min(pb, kh - 1), min(pl, kw - 1), min(pr, kw - 1)
            H2, W2 = (oh - 1) * sy + kh - pt - pb, (ow - 1) * sx + kw - pl - pr
            X = fm(0x10000, H2, W2, d2)
            if a_kind == "conv":
                A["ifm"], A["ofm"] = fm(0x0, H2, W2, d1), X
            else:
                A["ifm"], A["ofm"] = fm(0x0, H2, W2, d2), X
        B = dict(kind=b_kind, block_index=draw(st.integers(0, 60)), rounding="TFL", kernel=[kw, kh, sx, sy, dx, dy], padding=[pt, pl, pb, pr], upscale="NONE",
                 part_kernel=draw(st.booleans()), ifm=copy.deepcopy(X), ofm=fm(0x40000, oh, ow, d3 if b_kind == "conv" else d2))
        if b_kind == "pool":
            B["mode"] = draw(st.sampled_from(["MAX", "AVERAGE", "REDUCE_SUM"]))
            if B["mode"] == "REDUCE_SUM" and layout == "NHCWB16" and accel == "ethos-u65-512":
                B["mode"] = "AVERAGE"  # the generator refuses REDUCE_SUM with an NHCWB16 IFM on the two-core accelerator (documented restriction)
            if B["mode"] == "REDUCE_SUM":
                # sums over the whole IFM depth into one channel (reads IFM depth blocks like a convolution)
                B["kernel"], B["padding"] = [1, 1, 1, 1, 1, 1], [0, 0, 0, 0]
                B["ofm"] = fm(0x40000, H2, W2, 1)
                B["ofm"]["dtype"] = "int32"
        else:
            B["weights"], B["biases"] = [[0, 8192, 1600]] * nc, [[0, 16384, 160]] * nc
        return dict(kind="sequence", accel=accel, ops=[A, B])

    return case()


def chains(ctx, arg, rec):
    shard, n = arg
    run_hypothesis(rec, chain_strategy(), oracle, n, sub_seed(ctx.seed, PROPERTY, "chain", shard))


def oracle(case, rec=None):
    api = c06._api()
    accel = case["accel"]
    accel_enum = getattr(api.NpuAccelerator, hw.ACCELS[accel]["enum"])
    specs = copy.deepcopy(case["ops"])
    ops = []
    for s in specs:
        op = c06.build_op(api, s, accel_enum)
        if s["kind"] != "dma":
            blk = c06.choose_block(api, op, s, accel_enum, case)
            if blk is None:
                if rec is not None:
                    rec.cls("no-block-config")
                return
            op.block_config = blk
        ops.append(op)
    words = sut("C04/generate", case, api.npu_generate_register_command_stream, ops, accel_enum)
    try:
        cmds = csdec.decode_words([int(w) for w in words])
        stats = {}
        hazard.check_stream(cmds, accel, stats)
    except csdec.DecodeError as e:
        raise Violation("C04/undecodable", str(e), case)
    except hazard.Hazard as h:
        raise Violation("C04/hazard/%s" % h.kind, h.msg, case)
    if rec is not None:
        nwait = sum(1 for c in cmds if c.kind in ("kernel_wait", "dma_wait"))
        rec.cls(accel, "waits" if nwait else "no-waits", *(k for k in stats))
        # non-trivial: an overlap existed that a wait or a reduced BLOCKDEP had to resolve
        overlapping = nwait > 0 or stats.get("blockdep_nonzero_with_overlap") or stats.get("kernel_raw_overlap")
        if overlapping:
            rec.nontriv(case, sample=dict(accel=accel, kinds=[s["kind"] for s in specs], waits=nwait, stats=stats))


def sequences(ctx, arg, rec):
    shard, n = arg
    run_hypothesis(rec, seq_strategy(), oracle, n, sub_seed(ctx.seed, PROPERTY, "seq", shard))


def parts(ctx):
    ps = [Part("seq%02d" % i, sequences, (i, 200 if ctx.quick else 9000)) for i in range(12)]
    ps += [Part("chain%02d" % i, chains, (i, 400 if ctx.quick else 12000)) for i in range(8)]
    try:
        import props.e2e_parts as e2e

        ps += e2e.parts_for(ctx, PROPERTY)
    except ImportError:
        pass
    return ps


def replay(ctx, case):
    if "spec" in case:
        import props.e2e_parts as e2e

        return e2e.replay(ctx, PROPERTY, case)
    oracle(case, None)

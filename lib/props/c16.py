"""C16 - operators within the documented constraints are accelerated, others stay on the CPU; the report is what is enforced."""
import os
import re
import shutil
import tempfile

from runner import Part, Violation, sub_seed, run_hypothesis, HarnessError
import e2e
import forkcall
import tflgen
import velaenv
import vmodel

PROPERTY = "C16"
RULE = (
    "(1) enforcement: single-operator networks (operator between graph input and output) built from a known-good base instance of each documented operator with exactly "
    "one documented constraint toggled, at the boundary value and just beyond it (stride 3/4, dilated kernel height 64/65 incl. via dilation, kernel product 4096/4160, pool "
    "kernel 8/9 and 256/257, ARG_MAX depth 127/128, tensor dimension 65535/65536, batch 1/2, bias 2^39-1/2^39, depth multiplier, resize factor 2/3, MEAN width 4096/4097, "
    "transpose-conv stride 2/3, softmax beta sign, data-type sentences, constant weights) x 6 accelerators x random channel counts; expected placement from a predicate table "
    "keyed by the report's sentence; observed from the output file (operator present unchanged vs produced by an Ethos-U operator). (1b) products: compound sentences are decided "
    "over the cross product of their parameters - TRANSPOSE_CONV stride (1x1, 2x2, 2x1, 1x2, 3x3) x IFM height x kernel height/width x padding (120 cases, all in both tiers) and "
    "RESIZE_BILINEAR/NEAREST IFM size x scale factors x size rule x align_corners x half_pixel_centers (seeded sample of 180 quick, all 720 thorough) - expected placement = conjunction "
    "of the report's criteria. (2) publication: the report produced by "
    "--supported-ops-report equals the committed SUPPORTED_OPS.md (modulo the version line) and contains every sentence the table keys on. "
    "non-trivial = every enforcement case (each lies on or one step beyond a documented limit); distinct = (toggle, side, accelerator, shape parameters)."
)
ASSUMPTIONS = [
    "only sentences with an unambiguous machine-checkable reading are toggled; each case toggles exactly one sentence starting from an instance that is accelerated",
    "an operator counts as accelerated when it is absent from the output model and an Ethos-U operator produces its result tensor",
]

SENT = {
    "stride": "Stride values for both width and height must be between 1 and 3",
    "dil_h": "Dilated kernel height must be in the range [1, 64]",
    "dil_prod": "Product of dilated kernel width and height must be in the range [1, 4096]",
    "w_const": "Weight tensor must be constant",
    "bias40": "Optional Bias tensor values must fit within 40-bits",
    "batch": "IFM Tensor batch size must be 1",
    "dims": "Tensor dimensions must be in the range [1, 65535]",
    "types": "Tensors must be of type: int16, int32, int8, uint8",
    "pool_stride": "Stride values for both width and height must be in the range [1, 3]",
    "pool_kh": "Kernel filter height must be in the range [1, 256]",
    "pool_prod": "Product of kernel filter width and height must be in the range [1, 65536]",
    "avg_k": "Kernel filter values for both width and height must be in the range [1, 8]",
    "argmax_depth": "IFM depth must be no greater than 127",
    "dw_mult": "For depth multipliers > 1, IFM channels must be 1 and OFM channels must be equal to the depth multiplier",
    "mean_w": "If Width axis is reduced its shape must be no greater than 4096.",
    "tconv_stride": "Stride values for width and height must match one of the following criteria:",
    "hswish_type": "IFM must be int8 or uint8",
    "both_types": "Both Input data types must match",
    "rank": "Input(s) and Output tensors must not be greater than 4D",
}


def T(name, shape, dtype="int8", scale=0.05, zp=0, data=None, qdim=0):
    if dtype == "float32":
        scale = zp = None
    return dict(name=name, shape=shape, dtype=dtype, scale=scale, zp=zp, data=data, qdim=qdim)


def conv_spec(h=8, w=8, c=4, oc=4, kh=3, kw=3, sh=1, sw=1, dil_h=1, dil_w=1, pad="SAME", dtype="int8", batch=1, const_w=True, bias_dt="int32", bias_vals=None, kind="CONV_2D", mult=1, seed=1):
    wdt = "uint8" if dtype == "uint8" else "int8"
    if kind == "DEPTHWISE_CONV_2D":
        oc = c * mult
        wshape = [1, kh, kw, oc]
    else:
        wshape = [oc, kh, kw, c]
    dkh, dkw = dil_h * (kh - 1) + 1, dil_w * (kw - 1) + 1
    if pad == "SAME":
        oh, ow = -(-h // sh), -(-w // sw)
    else:
        oh, ow = (h - dkh) // sh + 1, (w - dkw) // sw + 1
    tensors = [T("input", [batch, h, w, c], dtype, 0.05 if dtype != "int16" else 0.001, 0),
               T("weights", wshape, wdt, 0.01, 0 if wdt == "int8" else 128, dict(seed=seed, lo=-3 if wdt == "int8" else 125, hi=3 if wdt == "int8" else 131) if const_w else None),
               T("bias", [oc], bias_dt, 0.0005, 0, dict(values=bias_vals) if bias_vals is not None else dict(seed=seed + 1, lo=-100, hi=100)),
               T("output", [batch, oh, ow, oc], dtype, 0.1 if dtype != "int16" else 0.002, 0)]
    fields = dict(Padding=0 if pad == "SAME" else 1, StrideW=sw, StrideH=sh, FusedActivationFunction=0, DilationWFactor=dil_w, DilationHFactor=dil_h)
    if kind == "DEPTHWISE_CONV_2D":
        fields["DepthMultiplier"] = mult
    ops = [dict(code=kind, inputs=[0, 1, 2], outputs=[3], opts=dict(table="Conv2DOptions" if kind == "CONV_2D" else "DepthwiseConv2DOptions", fields=fields), version=3)]
    return dict(tensors=tensors, ops=ops, inputs=[0] if const_w else [0, 1], outputs=[3])


def pool_spec(kind, h, w, c, kh, kw, sh, sw, pad, dtype="int8"):
    if pad == "SAME":
        oh, ow = -(-h // sh), -(-w // sw)
    else:
        oh, ow = (h - kh) // sh + 1, (w - kw) // sw + 1
    tensors = [T("input", [1, h, w, c], dtype), T("output", [1, oh, ow, c], dtype)]
    ops = [dict(code=kind, inputs=[0], outputs=[1], opts=dict(table="Pool2DOptions", fields=dict(Padding=0 if pad == "SAME" else 1, StrideW=sw, StrideH=sh, FilterWidth=kw, FilterHeight=kh, FusedActivationFunction=0)), version=2)]
    return dict(tensors=tensors, ops=ops, inputs=[0], outputs=[1])


def unary_spec(code, shape, dtype="int8", table=None, fields=None, out_dtype=None, out_shape=None, extra_inputs=None, out_q=(0.05, 0)):
    tensors = [T("input", shape, dtype)]
    ins = [0]
    for e in (extra_inputs or []):
        tensors.append(e)
        ins.append(len(tensors) - 1)
    od = out_dtype or dtype
    tensors.append(T("output", out_shape or shape, od, out_q[0], out_q[1]) if od not in ("int32", "int64") or code != "ARG_MAX" else dict(name="output", shape=out_shape, dtype=od, scale=None, zp=None, data=None, qdim=0))
    ops = [dict(code=code, inputs=ins, outputs=[len(tensors) - 1], opts=dict(table=table, fields=fields or {}) if table else None, version=2)]
    return dict(tensors=tensors, ops=ops, inputs=[0], outputs=[len(tensors) - 1])


def build_case(toggle, side, c):
    """-> (spec, sentence key); side 'in' = constraint satisfied at its boundary, 'out' = just violated"""
    inside = side == "in"
    if toggle == "conv_stride":
        return conv_spec(h=12, w=12, c=c, sh=3 if inside else 4, sw=1), "stride_conv"
    if toggle == "dw_stride":
        return conv_spec(h=12, w=12, c=c, sh=1, sw=3 if inside else 4, kind="DEPTHWISE_CONV_2D"), "stride"
    if toggle == "conv_dil_h":
        return conv_spec(h=70, w=4, c=c, kh=64 if inside else 65, kw=1, pad="SAME"), "dil_h"
    if toggle == "conv_dil_h_by_dilation":
        return conv_spec(h=70, w=4, c=c, kh=32 if inside else 33, kw=1, dil_h=2, pad="SAME"), "dil_h"
    if toggle == "conv_dil_prod":
        return conv_spec(h=64, w=66, c=min(c, 2), oc=2, kh=64, kw=64 if inside else 65, pad="SAME"), "dil_prod"
    if toggle == "conv_w_const":
        return conv_spec(c=c, const_w=inside), "w_const"
    if toggle == "conv_bias40":
        v = (1 << 39) - 1 if inside else (1 << 39)
        return conv_spec(c=c, oc=2, dtype="int16", bias_dt="int64", bias_vals=[v, -5]), "bias40"
    if toggle == "conv_batch":
        return conv_spec(c=c, batch=1 if inside else 2), "batch"
    if toggle == "conv_dims":
        return conv_spec(h=1, w=65535 if inside else 65536, c=1, oc=1, kh=1, kw=1), "dims"
    if toggle == "conv_type":
        return conv_spec(c=c, dtype="int8" if inside else "float32"), "types"
    if toggle == "maxpool_stride":
        return pool_spec("MAX_POOL_2D", 12, 12, c, 2, 2, 3 if inside else 4, 1, "VALID"), "pool_stride"
    if toggle == "maxpool_kh":
        return pool_spec("MAX_POOL_2D", 260, 2, c, 256 if inside else 257, 1, 1, 1, "VALID"), "pool_kh"
    if toggle == "maxpool_prod":
        return pool_spec("MAX_POOL_2D", 256, 258, 1, 256, 256 if inside else 257, 1, 1, "VALID"), "pool_prod"
    if toggle == "avgpool_k":
        return pool_spec("AVERAGE_POOL_2D", 16, 16, c, 8 if inside else 9, 8, 1, 1, "SAME"), "avg_k"
    if toggle == "argmax_depth":
        d = 127 if inside else 128
        return unary_spec("ARG_MAX", [1, 4, 4, d], "int8", "ArgMaxOptions", dict(OutputType=2), out_dtype="int32", out_shape=[1, 4, 4],
                          extra_inputs=[T("axis", [], "int32", None, None, dict(values=[3]))]), "argmax_depth"
    if toggle == "dw_mult":
        return conv_spec(h=8, w=8, c=1 if inside else 2, mult=2, kind="DEPTHWISE_CONV_2D"), "dw_mult"
    if toggle == "mean_w":
        wd = 4096 if inside else 4097
        return unary_spec("MEAN", [1, 1, wd, 2], "int8", "ReducerOptions", dict(KeepDims=True), out_shape=[1, 1, 1, 2], extra_inputs=[T("axis", [1], "int32", None, None, dict(values=[2]))]), "mean_w"
    if toggle == "tconv_stride":
        s = 2 if inside else 3
        spec = dict(tensors=[T("oshape", [4], "int32", None, None, dict(values=[1, 4 * s, 4 * s, 2])), T("weights", [2, 3, 3, c], "int8", 0.01, 0, dict(seed=3, lo=-3, hi=3)), T("input", [1, 4, 4, c]),
                             T("bias", [2], "int32", 0.0005, 0, dict(seed=4, lo=-10, hi=10)), T("output", [1, 4 * s, 4 * s, 2], "int8", 0.1, 0)],
                    ops=[dict(code="TRANSPOSE_CONV", inputs=[0, 1, 2, 3], outputs=[4], opts=dict(table="TransposeConvOptions", fields=dict(Padding=0, StrideW=s, StrideH=s)), version=3)], inputs=[2], outputs=[4])
        return spec, "tconv_stride"
    if toggle == "hswish_type":
        dt = "int8" if inside else "int16"
        return unary_spec("HARD_SWISH", [1, 4, 4, c], dt, None, None, out_q=(0.05 if dt == "int8" else 0.001, 0)), "hswish_type"
    if toggle == "add_types":
        spec = dict(tensors=[T("a", [1, 4, 4, c], "int8"), T("b", [1, 4, 4, c], "int8" if inside else "uint8", 0.05, 0 if inside else 128), T("output", [1, 4, 4, c], "int8", 0.1, 0)],
                    ops=[dict(code="ADD", inputs=[0, 1], outputs=[2], opts=dict(table="AddOptions", fields=dict(FusedActivationFunction=0)), version=2)], inputs=[0, 1], outputs=[2])
        return spec, "both_types"
    if toggle == "relu_rank":
        shp = [1, 2, 2, c] if inside else [1, 1, 2, 2, c]
        return unary_spec("RELU", shp, "int8"), "rank"
    raise AssertionError(toggle)


TOGGLES = ["conv_stride", "dw_stride", "conv_dil_h", "conv_dil_h_by_dilation", "conv_dil_prod", "conv_w_const", "conv_bias40", "conv_batch", "conv_dims", "conv_type",
           "maxpool_stride", "maxpool_kh", "maxpool_prod", "avgpool_k", "argmax_depth", "dw_mult", "mean_w", "tconv_stride", "hswish_type", "add_types", "relu_rank"]


FOLLOWERS = {"TANH": (1.0 / 128, 0), "LOGISTIC": (1.0 / 256, -128), "RELU": None}


def add_follower(spec, code):
    """append an operator that is within every documented constraint (8-bit activation of the first operator's output)"""
    import copy

    spec = copy.deepcopy(spec)
    src = spec["ops"][0]["outputs"][0]
    t = spec["tensors"][src]
    q = FOLLOWERS[code] or (t["scale"], t["zp"])
    t["name"] = "intermediate"
    spec["tensors"].append(dict(name="follower_output", shape=t["shape"], dtype=t["dtype"], scale=q[0], zp=q[1], data=None, qdim=0))
    spec["ops"].append(dict(code=code, inputs=[src], outputs=[len(spec["tensors"]) - 1], opts=None, version=1))
    spec["outputs"] = [len(spec["tensors"]) - 1]
    return spec


def placement(spec, out_model, index=0):
    """'npu' | 'cpu' | 'other' for operator `index` of spec"""
    sg = out_model["subgraphs"][0]
    code = spec["ops"][index]["code"]
    out_name = spec["tensors"][spec["ops"][index]["outputs"][0]]["name"]
    names = {i: t["name"] for i, t in enumerate(sg["tensors"])}
    present = [o for o in sg["ops"] if o["code"] == code and o["custom_code"] is None]
    npu = [o for o in sg["ops"] if o["custom_code"] == "ethos-u" and out_name in [names[t] for t in o["outputs"]]]
    if present and not npu:
        return "cpu"
    if npu and not present:
        return "npu"
    return "other"


def oracle(case, rec=None):
    spec, key = build_case(case["toggle"], case["side"], case["c"])
    follower = case.get("follower")
    ot = spec["tensors"][spec["ops"][0]["outputs"][0]]
    if follower and (ot["dtype"] != "int8" or len(ot["shape"]) != 4 or ot["shape"][0] != 1 or max(ot["shape"]) > 65535 or ot["scale"] is None):
        follower = None  # the follower must itself be within every documented constraint (8-bit, rank 4, batch 1, dimensions in range)
    if follower:
        spec = add_follower(spec, follower)
    cfg = dict(accel=case["accel"], memory_mode="default", optimise="Performance", allocator="HillClimb", cpu_tensor_alignment=16, max_block_dependency=3)
    full = dict(kind="e2e", spec=spec, cfg=cfg)
    art, res = e2e.compile_case(full)
    if res.get("harness"):
        raise HarnessError(res["exc"][3])
    if art is None:
        raise Violation("C16/compile-failed/%s" % case["toggle"], "single-operator network (%s, %s) did not compile: %s" % (case["toggle"], case["side"], (res.get("exc") or [None, res.get("stdout", "")[-200:]])[1]), case)
    got = placement(spec, art.model)
    want = "npu" if case["side"] == "in" else "cpu"
    if follower:
        # the follower is within every documented constraint whatever happens to its producer: it must be produced by an Ethos-U operator
        fgot = placement(spec, art.model, 1)
        if fgot != "npu":
            raise Violation("C16/placement/follower-%s" % follower, "%s after a %s that is %s: the activation is within the documented constraints but is placed on the %s on %s" % (
                follower, spec["ops"][0]["code"], "accelerated" if want == "npu" else "left on the CPU (%s violated)" % SENT.get(key, key), fgot.upper(), case["accel"]), case)
        if want == "npu":
            sg = art.model["subgraphs"][0]
            got = "npu" if not [o for o in sg["ops"] if o["code"] == spec["ops"][0]["code"] and o["custom_code"] is None] else "cpu"
    if got != want:
        raise Violation("C16/placement/%s-%s" % (case["toggle"], case["side"]),
                        "%s with the documented constraint '%s' %s is placed on the %s (expected %s) on %s" % (
                            spec["ops"][0]["code"], SENT.get(key, key), "satisfied at its limit" if case["side"] == "in" else "violated by one step", got.upper(), want.upper(), case["accel"]), case)
    if want == "cpu":
        # the CPU-resident operator must be unchanged
        import props.c11 as c11
        import fbwrite

        c11.compare(full, vmodel.load(fbwrite.build(spec)), art.model)
    if rec is not None:
        rec.cls(case["toggle"], "side-" + case["side"], case["accel"])
        rec.nontriv([case], sample=case)


# ---- products: compound sentences decided over a cross product of their parameters --------------------------------
TCONV_STRIDES = [(1, 1), (2, 2), (2, 1), (1, 2), (3, 3)]


def product_cases(family):
    """the full parameter list of one product family (each entry is a JSON-able dict)"""
    out = []
    if family == "tconv":
        for (sw, sh) in TCONV_STRIDES:
            for ih in (1, 2):
                for kh in (1, 2, 3):
                    for kw in (1, 3):
                        for pad in ("SAME", "VALID"):
                            out.append(dict(family="tconv", sw=sw, sh=sh, ih=ih, iw=4, kh=kh, kw=kw, pad=pad))
    elif family == "eltwise":
        # data-type sentences of the binary element-wise operators, decided together: generic ("If a fused activation function is present, the Output tensor must be one of type:
        # int16, int8, uint8") and specific ("Both Input data types must match", "For IFM that are signed, OFM must also be signed", "For IFM that are unsigned, OFM must either be
        # the same type or int32")
        for code in ("ADD", "SUB", "MUL"):
            for a in ELT_TYPES:
                for b in ELT_TYPES:
                    for o in ELT_TYPES:
                        for faf in (0, 1):
                            out.append(dict(family="eltwise", code=code, a=a, b=b, o=o, faf=faf))
    elif family == "avgpool":
        # AVERAGE_POOL_2D stride sentences, only combinations whose reading is unambiguous (class says which sentence decides):
        #  A  SAME, stride width 4/6, stride height <= 3                          -> "For stride width greater than 3, valid padding needs to be used" violated
        #  B  SAME, stride width <= 3, stride height 4/5, one output row        -> every sentence satisfied ("Stride h must be between 1 and 3 when ofm height is greater than 1")
        #  C  SAME/VALID, both strides <= 3                                      -> satisfied (control)
        #  D  SAME, stride width <= 3, stride height 4/5, several output rows   -> stride h sentence violated
        #  E  VALID, stride width 4/6 with the IFM width divisible by stride_w/2, stride height <= 3 -> satisfied (second alternative of the stride w sentence)
        for (kh, kw) in ((1, 1), (2, 2), (3, 4), (5, 3)):
            for sw in (4, 6):
                for sh in (1, 2, 3):
                    out.append(dict(family="avgpool", cls="A", pad="SAME", ih=6, iw=12, kh=kh, kw=kw, sh=sh, sw=sw, ok=False))
                    out.append(dict(family="avgpool", cls="E", pad="VALID", ih=6, iw=12, kh=min(kh, 6), kw=kw, sh=sh, sw=sw, ok=True))
            for sw in (1, 2, 3):
                for sh in (4, 5):
                    out.append(dict(family="avgpool", cls="B", pad="SAME", ih=sh, iw=12, kh=min(kh, sh), kw=kw, sh=sh, sw=sw, ok=True))
                    out.append(dict(family="avgpool", cls="D", pad="SAME", ih=3 * sh, iw=12, kh=kh, kw=kw, sh=sh, sw=sw, ok=False))
                for sh in (1, 3):
                    out.append(dict(family="avgpool", cls="C", pad="SAME", ih=6, iw=12, kh=kh, kw=kw, sh=sh, sw=sw, ok=True))
    elif family == "splitbatch":
        # "OFM Tensor batch size must be 1 and each OFM must be taken from a single batch of the IFM" (SPLIT, SPLIT_V, UNPACK): decided by the batch of EVERY output
        for b, sizes in ((1, [1]), (2, [1, 1]), (2, [2]), (3, [2, 1]), (3, [1, 2]), (3, [1, 1, 1]), (4, [2, 1, 1]), (4, [1, 1, 2])):
            out.append(dict(family="splitbatch", code="SPLIT_V", axis=0, b=b, sizes=sizes))
        for b in (1, 2, 3):
            out.append(dict(family="splitbatch", code="SPLIT_V", axis=3, b=b, sizes=[1, 2]))
            out.append(dict(family="splitbatch", code="SPLIT", axis=3, b=b, sizes=[2, 2]))
            out.append(dict(family="splitbatch", code="SPLIT", axis=0, b=b, sizes=[1] * b))
    elif family == "mean":
        # the MEAN sentences decided together over (axes, H, W, C, data type): "Reduction in Depth axis is supported if at least one of H,W,C are of size 1", "Product of
        # reduced axes must be no greater than 16777216 / 8388608 / 65536 (int8 / uint8 / int16)" - every reduced axis counts, the depth included -, "If Width (Depth) axis is
        # reduced its shape must be no greater than 4096"
        shapes = {(1, 2): [(256, 256, 1), (257, 256, 1), (256, 257, 1), (128, 128, 2), (16, 4096, 1), (8, 4097, 1), (3, 5, 4)],
                  (2, 3): [(1, 256, 256), (1, 257, 256), (1, 256, 257), (2, 16, 16), (1, 16, 16), (16, 1, 16), (1, 16, 4096), (1, 8, 4097)],
                  (1, 3): [(256, 1, 256), (257, 1, 256), (16, 2, 16), (1, 2, 16), (16, 16, 1)],
                  (3,): [(2, 2, 64), (1, 2, 4096), (1, 2, 4097), (2, 1, 64)],
                  (1, 2, 3): [(16, 16, 1), (8, 8, 4), (1, 256, 256), (1, 257, 256), (257, 1, 256), (256, 1, 256)]}
        for axes, lst in shapes.items():
            for (h, w, c) in lst:
                for dt in ("int16", "int8", "uint8"):
                    out.append(dict(family="mean", axes=list(axes), h=h, w=w, c=c, dt=dt))
    elif family == "lstm":
        # the UNIDIRECTIONAL_SEQUENCE_LSTM sentences: a well-formed integer LSTM is accelerated; each variant violates exactly one group of sentences and must stay on the CPU,
        # operands, options and intermediates untouched
        for toggle in ("none", "none", "peephole", "projection", "normalisation", "cifg", "missing-weight", "recurrent-3d", "four-intermediates", "ifm-4d", "uint8"):
            for tm in (False, True):
                for batch in (1, 2):
                    out.append(dict(family="lstm", toggle=toggle, time_major=tm, batch=batch, cells=[5, 16][batch - 1]))
    elif family == "resize":
        for code in ("RESIZE_BILINEAR", "RESIZE_NEAREST_NEIGHBOR"):
            for (ih, iw) in ((1, 1), (2, 2), (2, 3), (3, 3), (4, 2)):
                for fh in (1, 2, 3, 4, 8):
                    for fw in (1, 2, 3, 4, 8):
                        if fh != fw and (fh not in (2, 4) or fw not in (2, 4, 8)):
                            continue  # unequal factors: a few representatives are enough
                        for mode in ("mul", "corners"):
                            for ac in (False, True):
                                for hpc in (False, True):
                                    out.append(dict(family="resize", code=code, ih=ih, iw=iw, fh=fh, fw=fw, mode=mode, ac=ac, hpc=hpc))
    return out


ELT_TYPES = ("int8", "uint8", "int16", "int32")
ELT_SENT = ["If a fused activation function is present, the Output tensor must be one of type: int16, int8, uint8", "Both Input data types must match",
            "For IFM that are signed, OFM must also be signed", "For IFM that are unsigned, OFM must either be the same type or int32"]


def product_spec(p, c):
    """-> (spec, expected placement, the sentences that decide it)"""
    if p["family"] == "avgpool":
        ih, iw, kh, kw, sh, sw = p["ih"], p["iw"], p["kh"], p["kw"], p["sh"], p["sw"]
        if p["pad"] == "SAME":
            oh, ow = -(-ih // sh), -(-iw // sw)
        else:
            oh, ow = (ih - kh) // sh + 1, (iw - kw) // sw + 1
        spec = unary_spec("AVERAGE_POOL_2D", [1, ih, iw, c], "int8", "Pool2DOptions", dict(Padding=0 if p["pad"] == "SAME" else 1, StrideW=sw, StrideH=sh, FilterWidth=kw, FilterHeight=kh,
                                                                                           FusedActivationFunction=0), out_shape=[1, oh, ow, c])
        return spec, p["ok"], "avgpool"
    if p["family"] == "splitbatch":
        b, sizes, axis = p["b"], p["sizes"], p["axis"]
        cch = sum(sizes) if axis == 3 else 3
        tensors = [T("input", [b, 2, 4, cch])]
        outs = []
        if p["code"] == "SPLIT_V":
            tensors += [T("sizes", [len(sizes)], "int32", None, None, dict(values=sizes)), T("axis", [], "int32", None, None, dict(values=[axis]))]
            ins = [0, 1, 2]
            opts = dict(table="SplitVOptions", fields=dict(NumSplits=len(sizes)))
        else:
            tensors += [T("axis", [], "int32", None, None, dict(values=[axis]))]
            ins = [1, 0]
            opts = dict(table="SplitOptions", fields=dict(NumSplits=len(sizes)))
        for k, sz in enumerate(sizes):
            shp = [b, 2, 4, cch]
            shp[axis] = sz
            tensors.append(T("output" if k == 0 else "output_%d" % k, shp))
            outs.append(len(tensors) - 1)
        spec = dict(tensors=tensors, ops=[dict(code=p["code"], inputs=ins, outputs=outs, opts=opts, version=2)], inputs=[0], outputs=outs)
        ok = all(tensors[o]["shape"][0] == 1 for o in outs)
        return spec, ok, "splitbatch"
    if p["family"] == "eltwise":
        def q(dt):
            return (0.05, 128) if dt == "uint8" else (0.05, 0)
        ts = [T("a", [1, 4, 4, c], p["a"], *q(p["a"])), T("b", [1, 4, 4, c], p["b"], *q(p["b"])), T("output", [1, 4, 4, c], p["o"], 0.1, 128 if p["o"] == "uint8" else 0)]
        table = {"ADD": "AddOptions", "SUB": "SubOptions", "MUL": "MulOptions"}[p["code"]]
        spec = dict(tensors=ts, ops=[dict(code=p["code"], inputs=[0, 1], outputs=[2], opts=dict(table=table, fields=dict(FusedActivationFunction=p["faf"])), version=2)], inputs=[0, 1], outputs=[2])
        signed = lambda dt: dt != "uint8"
        ok = p["a"] == p["b"] and (not p["faf"] or p["o"] in ("int16", "int8", "uint8"))
        ok = ok and (not signed(p["a"]) or signed(p["o"])) and (signed(p["a"]) or p["o"] in (p["a"], "int32"))
        return spec, ok, "eltwise"
    if p["family"] == "lstm":
        tg, tm, nb, n = p["toggle"], p["time_major"], p["batch"], p["cells"]
        f, steps = 7, 2
        dt = "uint8" if tg == "uint8" else "int8"
        ishape = [steps, nb, f] if tm else [nb, steps, f]
        oshape = ishape[:-1] + [n]
        if tg == "ifm-4d":
            ishape, oshape = [1] + ishape, [1] + oshape
        ts = [T("input", ishape, dt, 0.05, 128 if dt == "uint8" else 0)]
        ins = [0]

        def add(t):
            ts.append(t)
            return len(ts) - 1

        wshape_r = [1, n, n] if tg == "recurrent-3d" else [n, n]
        for k in range(4):
            ins.append(add(T("w_in%d" % k, [n, f], "int8", 0.01, 0, dict(seed=11 + k, lo=-100, hi=100))))
        for k in range(4):
            ins.append(add(T("w_re%d" % k, wshape_r, "int8", 0.01, 0, dict(seed=21 + k, lo=-100, hi=100))))
        for k in range(3):
            ins.append(add(T("peep%d" % k, [n], "int16", 2.0 ** -12, 0, dict(seed=31 + k, lo=-100, hi=100))) if tg == "peephole" else -1)
        for k in range(4):
            ins.append(add(T("bias%d" % k, [n], "int32", 0.0005, 0, dict(seed=41 + k, lo=-500, hi=500))))
        ins.append(add(T("proj_w", [n, n], "int8", 0.01, 0, dict(seed=51, lo=-100, hi=100))) if tg == "projection" else -1)
        ins.append(-1)
        st_dt = dt
        ins.append(add(dict(T("out_state", [nb, n], st_dt, 0.05, 128 if dt == "uint8" else 0), is_variable=True)))
        ins.append(add(dict(T("cell_state", [nb, n], "int16", 2.0 ** -11, 0), is_variable=True)))
        for k in range(4):
            ins.append(add(T("norm%d" % k, [n], "int16", 2.0 ** -12, 0, dict(seed=61 + k, lo=-100, hi=100))) if tg == "normalisation" else -1)
        if tg == "cifg":
            ins[1] = ins[5] = -1
        if tg == "missing-weight":
            ins[3] = -1
        inter = [add(T("im%d" % k, [], "int16", 2.0 ** -12, 0)) for k in range(3 if tg == "four-intermediates" else 4)] + [add(T("hidden", [], dt, 0.05, 128 if dt == "uint8" else 0))]
        out_i = add(T("output", oshape, dt, 0.05, 128 if dt == "uint8" else 0))
        op = dict(code="UNIDIRECTIONAL_SEQUENCE_LSTM", inputs=ins, outputs=[out_i], intermediates=inter, version=3,
                  opts=dict(table="UnidirectionalSequenceLSTMOptions", fields=dict(FusedActivationFunction=4, CellClip=0.0, ProjClip=0.0, TimeMajor=tm, AsymmetricQuantizeInputs=False)))
        return dict(tensors=ts, ops=[op], inputs=[0], outputs=[out_i]), tg == "none", "lstm"
    if p["family"] == "mean":
        axes, h, w, cc, dt = p["axes"], p["h"], p["w"], p["c"], p["dt"]
        shape = [1, h, w, cc]
        oshape = [1 if i in axes else v for i, v in enumerate(shape)]
        q = (0.05, 128) if dt == "uint8" else (0.05, 0)
        spec = unary_spec("MEAN", shape, dt, "ReducerOptions", dict(KeepDims=True), out_shape=oshape, extra_inputs=[T("axis", [len(axes)], "int32", None, None, dict(values=list(axes)))], out_q=q)
        spec["tensors"][0]["zp"] = q[1]
        prod = 1
        for a in axes:
            prod *= shape[a]
        ok = prod <= {"int8": 1 << 24, "uint8": 1 << 23, "int16": 1 << 16}[dt]
        if 3 in axes:
            ok = ok and 1 in (h, w, cc) and cc <= 4096
        if 2 in axes:
            ok = ok and w <= 4096
        return spec, ok, "mean"
    if p["family"] == "tconv":
        sw, sh, ih, iw, kh, kw, pad = p["sw"], p["sh"], p["ih"], p["iw"], p["kh"], p["kw"], p["pad"]
        if pad == "SAME":
            oh, ow = ih * sh, iw * sw
        else:
            oh, ow = ih * sh + max(kh - sh, 0), iw * sw + max(kw - sw, 0)
        spec = dict(tensors=[T("oshape", [4], "int32", None, None, dict(values=[1, oh, ow, 2])), T("weights", [2, kh, kw, c], "int8", 0.01, 0, dict(seed=3, lo=-3, hi=3)), T("input", [1, ih, iw, c]),
                             T("bias", [2], "int32", 0.0005, 0, dict(seed=4, lo=-10, hi=10)), T("output", [1, oh, ow, 2], "int8", 0.1, 0)],
                    ops=[dict(code="TRANSPOSE_CONV", inputs=[0, 1, 2, 3], outputs=[4], opts=dict(table="TransposeConvOptions", fields=dict(Padding=0 if pad == "SAME" else 1, StrideW=sw, StrideH=sh)), version=3)],
                    inputs=[2], outputs=[4])
        ok = (sw, sh) in ((1, 1), (2, 2)) or ((sw, sh) == (2, 1) and ih == 1 and kh == 1)
        return spec, ok, "tconv_stride"
    code, ih, iw, fh, fw, mode, ac, hpc = p["code"], p["ih"], p["iw"], p["fh"], p["fw"], p["mode"], p["ac"], p["hpc"]
    oh, ow = (ih * fh, iw * fw) if mode == "mul" else ((ih - 1) * fh + 1, (iw - 1) * fw + 1)
    spec = unary_spec(code, [1, ih, iw, c], "int8", "ResizeBilinearOptions" if code == "RESIZE_BILINEAR" else "ResizeNearestNeighborOptions", dict(AlignCorners=ac, HalfPixelCenters=hpc),
                      out_shape=[1, oh, ow, c], extra_inputs=[T("size", [2], "int32", None, None, dict(values=[oh, ow]))])
    spec["ops"][0]["version"] = 3
    if (ih, iw) == (1, 1) or (ih, iw) == (oh, ow):
        shape_ok = True
    elif ac:
        shape_ok = (oh - 1) * (iw - 1) == (ow - 1) * (ih - 1) and (oh - 1) in [k * (ih - 1) for k in (2, 4, 8)]
    else:
        shape_ok = oh * iw == ow * ih and oh in [k * ih for k in (2, 4, 8)]
    ok = shape_ok and not (ac and hpc)
    if code == "RESIZE_BILINEAR" and hpc:
        ok = ok and ((ih, iw) == (1, 1) or (oh, ow) == (2 * ih, 2 * iw))
    return spec, ok, "resize"


def oracle_product(case, rec=None):
    p = case["params"]
    spec, ok, key = product_spec(p, case["c"])
    cfg = dict(accel=case["accel"], memory_mode="default", optimise="Performance", allocator="HillClimb", cpu_tensor_alignment=16, max_block_dependency=3)
    full = dict(kind="e2e", spec=spec, cfg=cfg)
    art, res = e2e.compile_case(full)
    if res.get("harness"):
        raise HarnessError(res["exc"][3])
    if art is None:
        raise Violation("C16/compile-failed/product-%s" % p["family"], "single-operator network %s did not compile: %s" % (p, (res.get("exc") or [None, res.get("stdout", "")[-200:]])[1]), case)
    got = placement(spec, art.model)
    want = "npu" if ok else "cpu"
    if got != want:
        raise Violation("C16/placement/product-%s-%s" % (p["family"], "in" if ok else "out"),
                        "%s %s: the documented criteria are %s but the operator is placed on the %s on %s" % (
                            spec["ops"][0]["code"], {k: v for k, v in p.items() if k != "family"}, "satisfied" if ok else "violated", got.upper(), case["accel"]), case)
    if want == "cpu":
        import props.c11 as c11
        import fbwrite

        c11.compare(full, vmodel.load(fbwrite.build(spec)), art.model)
    if rec is not None:
        rec.cls("product-" + p["family"], "product-%s-%s" % (p["family"], "in" if ok else "out"), case["accel"])
        rec.nontriv([case], sample=case)


def products(ctx, arg, rec):
    """cross products of the parameters of compound sentences (TRANSPOSE_CONV strides x IFM height x kernel height x padding; RESIZE sizes x factors x align_corners x
    half_pixel_centers): exhaustive for the small family, a seeded sample of the large one in the quick tier"""
    family, shard, nshards, limit = arg
    allp = product_cases(family)
    order = sorted(range(len(allp)), key=lambda i: sub_seed(ctx.seed, PROPERTY, family, i))
    if limit:
        order = order[:limit]
    for j, i in enumerate(order):
        if j % nshards != shard:
            continue
        s = sub_seed(ctx.seed, family, "cfg", i)
        case = dict(kind="product", params=allp[i], accel=tflgen.ACCELS[s % 6], c=1 + (s >> 3) % 6)
        rec.case()
        try:
            rec.check(oracle_product, case, rec)
        except Violation as v:
            rec.violation(v)


def case_strategy():
    from hypothesis import strategies as st

    return st.fixed_dictionaries(dict(kind=st.just("placement"), toggle=st.sampled_from(TOGGLES), side=st.sampled_from(["in", "out"]), accel=st.sampled_from(tflgen.ACCELS), c=st.integers(1, 8),
                                      follower=st.sampled_from([None, None, "TANH", "LOGISTIC", "RELU"])))


def placements(ctx, arg, rec):
    shard, n = arg
    run_hypothesis(rec, case_strategy(), oracle, n, sub_seed(ctx.seed, PROPERTY, "place", shard), shrink=True)


def grid(ctx, arg, rec):
    """every toggle x both sides once (accelerator and channel count vary with the seed)"""
    shard, nshards = arg
    i = 0
    for t in TOGGLES:
        for side in ("in", "out"):
            i += 1
            if i % nshards != shard:
                continue
            s = sub_seed(ctx.seed, t, side)
            case = dict(kind="placement", toggle=t, side=side, accel=tflgen.ACCELS[s % 6], c=1 + (s >> 3) % 8, follower=[None, "TANH", "LOGISTIC", "RELU"][(s >> 7) % 4])
            rec.case()
            try:
                rec.check(oracle, case, rec)
            except Violation as v:
                rec.violation(v)


# ---- publication -------------------------------------------------------------------------------------------
def _report_child(_):
    velaenv.init()
    import contextlib
    import io

    from ethosu.vela import vela

    d = tempfile.mkdtemp(prefix="c16-")
    try:
        os.chdir(d)
        with contextlib.redirect_stdout(io.StringIO()), contextlib.redirect_stderr(io.StringIO()):
            try:
                vela.main(["--supported-ops-report"])
            except SystemExit:
                pass
        with open(os.path.join(d, "SUPPORTED_OPS.md")) as f:
            return f.read()
    finally:
        os.chdir("/")
        shutil.rmtree(d, ignore_errors=True)


def publication(ctx, arg, rec):
    case = dict(kind="publication")
    rec.case()
    try:
        rec.check(oracle_publication, case, rec)
    except Violation as v:
        rec.violation(v)


def oracle_publication(case, rec=None):
    r = forkcall.forkcall(_report_child, None, 300)
    if r[0] != "ok":
        raise Violation("C16/report/failed", "--supported-ops-report failed: %s" % (r[1:4],), case)
    gen = [l.rstrip() for l in r[1].splitlines() if not l.lower().startswith("vela version")]
    with open(os.path.join(velaenv.REPO, "SUPPORTED_OPS.md")) as f:
        com = [l.rstrip() for l in f.read().splitlines() if not l.lower().startswith("vela version")]
    if gen != com:
        import difflib

        diff = [l for l in difflib.unified_diff(com, gen, "SUPPORTED_OPS.md (committed)", "generated", lineterm="", n=0)][:14]
        raise Violation("C16/report/stale", "the committed SUPPORTED_OPS.md differs from the report the compiler generates: %s" % " | ".join(diff), case)
    text = "\n".join(gen)
    for k, s in list(SENT.items()) + [("eltwise", e) for e in ELT_SENT] + [("avgpool", "For stride width greater than 3, valid padding needs to be used."),
                                                                              ("avgpool", "Stride h must be between 1 and 3 when ofm height is greater than 1"),
                                                                              ("splitbatch", "OFM Tensor batch size must be 1 and each OFM must be taken from a single batch of the IFM")]:
        if s not in text:
            raise Violation("C16/report/sentence-missing", "the report no longer contains the sentence the enforcement table keys on: %r" % s, case)
    if rec is not None:
        rec.cls("publication")
        rec.nontriv("publication", sample=dict(kind="publication", lines=len(gen)))


def parts(ctx):
    q = ctx.quick
    prods = [Part("product-tconv%02d" % i, products, ("tconv", i, 4, 0)) for i in range(4)] + [Part("product-resize%02d" % i, products, ("resize", i, 6, 180 if q else 0)) for i in range(6)]
    prods += [Part("product-eltwise%02d" % i, products, ("eltwise", i, 4, 128 if q else 0)) for i in range(4)]
    prods += [Part("product-avgpool%02d" % i, products, ("avgpool", i, 2, 60 if q else 0)) for i in range(2)]
    prods += [Part("product-splitbatch", products, ("splitbatch", 0, 1, 0))]
    prods += [Part("product-mean%02d" % i, products, ("mean", i, 3, 0)) for i in range(3)]
    prods += [Part("product-lstm%02d" % i, products, ("lstm", i, 2, 0)) for i in range(2)]
    return prods + [Part("grid%02d" % i, grid, (i, 12)) for i in range(12)] + [Part("place%02d" % i, placements, (i, 6 if q else 400)) for i in range(3 if q else 15)] + [Part("publication", publication, None)]


def replay(ctx, case):
    if case.get("kind") == "publication":
        oracle_publication(case, None)
    elif case.get("kind") == "product":
        oracle_product(case, None)
    else:
        oracle(case, None)

"""C05 - tensor allocators never overlap live buffers and report their true footprint.

Generated live-range sets (exhaustive small scope + Hypothesis large) x {Greedy, LinearAlloc, HillClimb} x memory
limits x iteration limits; oracle = validity predicate over the addresses observed through Tensor.address.
"""
import itertools

from runner import Part, Violation, sub_seed, run_hypothesis, sut
import velaenv

PROPERTY = "C05"
RULE = (
    "exhaustive part: every multiset of <=K ranges over the 15 inclusive intervals of time steps 0..4 x sizes {16,48,100} "
    "(K=3 quick with A in {16,64}, K=5 thorough) x alignment patterns over {16,A}, A in {16,32,64,128} x 3 allocators, plus ragged sizes {1,15,17} for <=3; "
    "random part: Hypothesis lists of 2..400 ranges (clustered starts, heavy-tailed sizes, fused/equivalent tensors, "
    "shared weight_compression_config for LinearAlloc) x allocator x memory limit x max_iterations. "
    "non-trivial = >=2 ranges alive at a common time step and reported total > largest range; distinct = hash of (ranges, allocator, limits)."
)
ASSUMPTIONS = [
    "time steps are inclusive at both ends (as live_range/hillclimb treat them)",
    "'reported total equals the highest end address' is asserted as highest_end <= total <= max(addr+round_up(size,align)) "
    "because Greedy and LinearAlloc include the alignment padding of the last buffer (over-reporting by padding is safe)",
    "LinearAlloc is given granularity = the largest requested alignment, as production passes cpu_tensor_alignment for both",
]

ALLOCS = ("Greedy", "LinearAlloc", "HillClimb")
INTERVALS = [(s, e) for s in range(5) for e in range(s, 5)]


def _mods():
    velaenv.init()
    from ethosu.vela import greedy_allocation, hillclimb_allocation, tensor_allocation, live_range
    from ethosu.vela.tensor import Tensor, MemArea, MemType, TensorPurpose
    from ethosu.vela.data_type import DataType

    return greedy_allocation, hillclimb_allocation, tensor_allocation, live_range, Tensor, MemArea, MemType, TensorPurpose, DataType


def build_graph(case):
    (_, _, _, live_range, Tensor, MemArea, MemType, TensorPurpose, DataType) = _mods()
    g = live_range.LiveRangeGraph()
    lrs = []
    for i, r in enumerate(case["ranges"]):
        start, end, size, align = r[0], r[1], r[2], r[3]
        extra = r[4] if len(r) > 4 else 0  # number of extra tensors fused / equivalent in this range
        wcfg = r[5] if len(r) > 5 else None
        if wcfg is not None:
            from ethosu.vela.weight_compressor import NpuWeightTensor

            t = NpuWeightTensor("t%d" % i)  # what production marks with a weight_compression_config
            t.set_all_shapes([1, 1, 1, size])
            extra = 0
        else:
            t = Tensor([size], DataType.uint8, "t%d" % i)
        t.mem_area = MemArea.Sram
        t.mem_type = MemType.Scratch
        t.purpose = TensorPurpose.FeatureMap
        lr = g.get_or_create_range(t, align)
        for k in range(extra):
            if k % 2 == 0:
                c = t.clone("_c%d" % k, set_unique=False)  # equivalent tensor (same equivalence id)
                c.mem_area, c.mem_type = t.mem_area, t.mem_type
                lr2 = g.get_or_create_range(c, align)
                if lr2 is not lr:
                    raise Violation("live_range/equivalent-not-shared", "equivalent tensor got its own live range", case)
            else:
                c = Tensor([max(size // 2, 1)], DataType.uint8, "t%d_f%d" % (i, k))  # fused (e.g. in-place elementwise)
                c.mem_area, c.mem_type = t.mem_area, t.mem_type
                g.fuse_ranges(t, c)
        if wcfg is not None:
            for tt in lr.tensors:
                tt.weight_compression_config = ("cfg", wcfg)
                tt.scale_compression_config = ("scfg", wcfg)
        lr.size = size
        lr.start_time = start
        lr.end_time = end
        lrs.append(lr)
    return g, lrs


def oracle(case, rec=None):
    (greedy_allocation, hillclimb_allocation, tensor_allocation, live_range, *_rest) = _mods()
    alloc = case["allocator"]
    g, lrs = build_graph(case)
    ranges = case["ranges"]
    n = len(lrs)
    gran = max(r[3] for r in ranges)
    hc_calls = None
    if alloc == "Greedy":
        total = sut("C05/greedy", case, greedy_allocation.allocate_live_ranges, g, gran)
        sut("C05/greedy-verify", case, tensor_allocation.verify_allocation, g, gran)
    elif alloc == "LinearAlloc":
        total = sut("C05/linear", case, tensor_allocation.linear_allocate_live_ranges, g, gran)
    else:
        HC = hillclimb_allocation.HillClimbAllocator
        calls = {"n": 0, "best": None, "last_improve": 0}
        orig = HC.allocate_indices

        def counting(self, indices):
            size = orig(self, indices)
            it = calls["n"] - 1  # call 0 is the heuristic allocation, call k+1 is search iteration k
            calls["n"] += 1
            if calls["best"] is None or size < calls["best"]:
                calls["best"] = size
                calls["last_improve"] = max(it, 0)
            return size

        HC.allocate_indices = counting
        try:
            total = sut("C05/hillclimb", case, tensor_allocation.hillclimb_allocate_live_ranges, g, gran, case.get("max_iter"), case.get("limit", 1 << 40))
        finally:
            HC.allocate_indices = orig
        hc_calls = calls
    addrs = []
    for lr in lrs:
        a = {t.address for t in lr.tensors}
        if len(a) != 1 or None in a:
            raise Violation("C05/%s/range-address" % alloc, "tensors of one live range have addresses %s" % a, case)
        addrs.append(a.pop())
    # alignment
    for i, (a, r) in enumerate(zip(addrs, ranges)):
        if a < 0 or a % r[3] != 0:
            raise Violation("C05/%s/alignment" % alloc, "range %d at address %d violates alignment %d" % (i, a, r[3]), case)
    # non-overlap of simultaneously live ranges
    order = sorted(range(n), key=lambda i: addrs[i])
    shared_ok = alloc == "LinearAlloc"
    nontrivial = False
    for x in range(n):
        i = order[x]
        si, ei, zi = ranges[i][0], ranges[i][1], ranges[i][2]
        for y in range(x + 1, n):
            j = order[y]
            if addrs[j] >= addrs[i] + zi:
                break
            sj, ej = ranges[j][0], ranges[j][1]
            if si <= ej and sj <= ei:
                # alive at a common step and byte intervals intersect
                if shared_ok and addrs[i] == addrs[j] and len(ranges[i]) > 5 and len(ranges[j]) > 5 and ranges[i][5] is not None and ranges[i][5] == ranges[j][5] and zi == ranges[j][2]:
                    continue  # identical compressed weights: LinearAlloc deliberately stores them once
                raise Violation("C05/%s/overlap" % alloc, "ranges %d %s@%d and %d %s@%d alive together overlap" % (
                    i, ranges[i][:3], addrs[i], j, ranges[j][:3], addrs[j]), case)
    tmax = max(r[1] for r in ranges)
    live = [0] * (tmax + 2)
    cnt = [0] * (tmax + 2)
    for r in ranges:
        for t in range(r[0], r[1] + 1):
            live[t] += r[2]
            cnt[t] += 1
    peak = max(live)
    hi = max(a + r[2] for a, r in zip(addrs, ranges))
    hi_padded = max(a + -(-r[2] // gran) * gran for a, r in zip(addrs, ranges))
    if not (hi <= total <= hi_padded):
        raise Violation("C05/%s/total" % alloc, "reported total %s but highest end address %d (padded %d)" % (total, hi, hi_padded), case)
    if alloc == "HillClimb":
        if total < peak:
            raise Violation("C05/HillClimb/below-peak", "total %d < peak live size %d" % (total, peak), case)
        mi = case.get("max_iter")
        mi = 99999 if mi is None else mi
        bound = max(mi, hc_calls["last_improve"] + 500) + 2
        if hc_calls["n"] > bound:
            raise Violation("C05/HillClimb/iterations", "%d allocation passes > bound %d" % (hc_calls["n"], bound), case)
    if max(cnt) >= 2 and total > max(r[2] for r in ranges):
        nontrivial = True
    if rec is not None:
        rec.cls(alloc)
        if nontrivial:
            rec.nontriv([ranges, alloc, case.get("limit"), case.get("max_iter")], sample=case)
    return nontrivial


# ----------------------------------------------------------------------------------------------------------
def _align_patterns(n, A):
    if A == 16:
        return [[16] * n]
    if n <= 3:
        return [[A if (m >> i) & 1 else 16 for i in range(n)] for m in range(1, 1 << n)]
    return [[A] * n, [A if i % 2 else 16 for i in range(n)], [16 if i % 2 else A for i in range(n)]]


def exhaustive(ctx, arg, rec):
    shard, nshards, kmax, sizes, aligns = arg
    types = [(s, e, z) for (s, e) in INTERVALS for z in sizes]
    idx = 0
    for k in range(1, kmax + 1):
        for combo in itertools.combinations_with_replacement(types, k):
            idx += 1
            if idx % nshards != shard:
                continue
            if k == 5:
                A = aligns[idx // nshards % len(aligns)]
                pats = _align_patterns(k, A)
                pats = [pats[(idx // nshards // len(aligns)) % len(pats)]]
            else:
                pats = [p for A in aligns for p in _align_patterns(k, A)]
            for pat in pats:
                ranges = [[s, e, z, a] for (s, e, z), a in zip(combo, pat)]
                for alloc in ALLOCS:
                    case = dict(ranges=ranges, allocator=alloc, limit=1 << 30, max_iter=None)
                    rec.case()
                    try:
                        rec.check(oracle, case, rec)
                    except Violation as v:
                        rec.violation(v)
                        return
    rec.exhaustive = True


def strategy(huge=False):
    from hypothesis import strategies as st

    @st.composite
    def case(draw):
        alloc = draw(st.sampled_from(ALLOCS))
        # HillClimb always searches >=500 iterations once the heuristic is not optimal: ~1 s at 150 ranges, ~15 s at 400
        big = st.integers(60, 400) if alloc != "HillClimb" else st.integers(60, 400 if huge else 120)
        n = draw(st.one_of(st.integers(2, 12), st.integers(10, 60), big) if not (alloc == "HillClimb" and not huge) else
                 st.one_of(st.integers(2, 12), st.integers(2, 12), st.integers(10, 60), st.integers(10, 60), st.integers(10, 60), big))
        horizon = draw(st.integers(1, max(2, n)))
        A = draw(st.sampled_from([16, 16, 32, 64, 128]))
        shape = draw(st.sampled_from(["uniform", "stair", "chain", "cluster"]))
        ranges = []
        ncfg = 0
        for i in range(n):
            if shape == "stair":
                s = i * horizon // n
                e = min(horizon, s + draw(st.integers(0, max(1, horizon // 3))))
            elif shape == "chain":
                s = i * horizon // n
                e = min(horizon, s + 1)
            elif shape == "cluster":
                s = draw(st.sampled_from([0, horizon // 2, horizon // 3]))
                e = min(horizon, s + draw(st.integers(0, 4)))
            else:
                s = draw(st.integers(0, horizon))
                e = draw(st.integers(s, horizon))
            size = draw(st.one_of(st.sampled_from([16, 32, 48, 64, 256, 1024]), st.integers(1, 64).map(lambda v: 16 * v),
                                  st.integers(1, 5000).map(lambda v: 16 * v), st.integers(1, 1 << 20)))
            if draw(st.integers(0, 9)) != 0:
                size = -(-size // 16) * 16  # production sizes are 16-byte rounded; 10% ragged buffer sizes
            al = A if draw(st.booleans()) else 16
            extra = draw(st.sampled_from([0, 0, 0, 0, 1, 2, 3]))
            wcfg = None
            if alloc == "LinearAlloc" and draw(st.integers(0, 5)) == 0:
                # a second live range holding the same compressed weights (same size, may be shared by LinearAlloc)
                prev = [r for r in ranges if r[5] is not None]
                if prev and draw(st.booleans()):
                    p = draw(st.sampled_from(prev))
                    size, wcfg = p[2], p[5]
                else:
                    ncfg += 1
                    wcfg = ncfg
            ranges.append([s, e, size, al, extra, wcfg])
        tmax = max(r[1] for r in ranges)
        live = [0] * (tmax + 1)
        for r in ranges:
            for t in range(r[0], r[1] + 1):
                live[t] += r[2]
        peak = max(live)
        lim = draw(st.sampled_from(["below", "at", "above", "huge"]))
        limit = {"below": peak // 2, "at": peak, "above": peak + peak // 4 + 16, "huge": 1 << 40}[lim]
        if n > 60:
            mi = draw(st.sampled_from([0, 1, 20]))
        elif n > 12:
            mi = draw(st.sampled_from([0, 1, 100, 600]))
        else:
            mi = draw(st.sampled_from([0, 1, 100, 2000, None] if lim != "below" else [0, 1, 100, 2000]))
        return dict(ranges=ranges, allocator=alloc, limit=limit, max_iter=mi)

    return case()


def random_part(ctx, arg, rec):
    shard, n = arg
    run_hypothesis(rec, strategy(huge=not ctx.quick and shard % 4 == 0), oracle, n, sub_seed(ctx.seed, PROPERTY, "rand", shard))


def parts(ctx):
    ps = []
    if ctx.quick:
        ps += [Part("exh%02d" % i, exhaustive, (i, 14, 3, (16, 48, 100), (16, 64))) for i in range(14)]
        ps += [Part("ragged%d" % i, exhaustive, (i, 2, 2, (1, 15, 17), (16, 64))) for i in range(2)]
        ps += [Part("rand%02d" % i, random_part, (i, 110)) for i in range(16)]
    else:
        ps += [Part("exh%02d" % i, exhaustive, (i, 32, 5, (16, 48, 100), (16, 32, 64, 128))) for i in range(32)]
        ps += [Part("ragged%d" % i, exhaustive, (i, 4, 3, (1, 15, 17), (16, 32, 64, 128))) for i in range(4)]
        ps += [Part("rand%02d" % i, random_part, (i, 1500 if i % 4 == 0 else 5000)) for i in range(16)]
    return ps


def replay(ctx, case):
    oracle(case, None)

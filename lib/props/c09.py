"""C09 - quantised multipliers reproduce the real scale to reference precision (scaling.py)."""
import math
from fractions import Fraction

from runner import Part, Violation, sub_seed, run_hypothesis, sut
import tflref
import velaenv

PROPERTY = "C09"
RULE = (
    "quantise_scale: float32 scales = every exponent -45..40 x sampled mantissas (incl. 0, 1, 2^23-1, all-ones patterns) and, per tier, all 2^23 "
    "mantissas of selected exponents (quick: 1 exponent; thorough: 13), given as np.float32 (what the reader produces) and Python float; float64 scales "
    "next to powers of two, random doubles, and ratios/products of float32 scales (Hypothesis); reduced form on the same values below 2^15; "
    "quantise_pooling_scale: all windows 1..256 x every reachable 8-bit accumulator and, for 16-bit, every accumulator for windows <=12 plus all ties "
    "and range ends, windows to 65536 (8-bit) / 16384 (16-bit) on ties and ends; add/sub/mul triples of float32 scales incl. equal scales, ratios near "
    "powers of two. non-trivial = scale not a power of two and inside the representable range / accumulator with non-zero remainder / triple with unequal "
    "input scales; distinct = the value itself (counted per class for the enumerated parts). part B: networks with convolution-type operators (profiles convs / "
    "exact / exact16 / cascade) are compiled; every 10-byte (bias, scale, shift) record the decoded streams address - per core, per depth slice, also where weights "
    "were DMA-buffered - is compared channel by channel with the reference derivation from the source operator's scales (per-channel double; float32 product for "
    "uint8 and FULLY_CONNECTED; reduced 16-bit multiplier for int16 with 64-bit bias) and the source bias value; non-trivial = artefact with >=1 compared record."
)
ASSUMPTIONS = [
    "float32 scale M*2^(e-24) has the exact Q31 significand M<<7 (closed form used for the enumerated float32 part); float64 part uses exact rationals",
    "TFLite QuantizeMultiplier is the yardstick inside its own range [2^-32, 2^30); (2^31, s) and (2^30, s-1) are the same value",
    "reduced int16 form: asserted for scales < 2^15, where the reduced shift is non-negative (int16 convolution scales are far below)",
    "average pool: the pair is evaluated as floor((acc*scale + 2^(shift-1)) >> shift) (single rounding, the statement's reading) and, for 8-bit windows "
    "<= 256, also with TFLite double rounding (bring-up showed double rounding is inherently inexact for 16-bit accumulators from window 255 on, "
    "independent of the pair, so it is not asserted there); a result is correct if it equals round-half-up(acc/n) or the TFLite kernel's "
    "round-half-away(acc/n) (they differ only on negative exact ties)",
    "MUL: the reference real multiplier may be computed in float32 (older kernels) or double (newer); either derivation is accepted. ADD/SUB: double.",
    "elementwise scales are given as np.float32, the type the TFLite reader stores in QuantizationParameters.scale_f32",
]


def _sc():
    velaenv.init()
    from ethosu.vela import scaling

    return scaling


# ----------------------------------------------------------------------------------------------------------
def check_qs(scale, case, rec=None, reduced=True):
    """scale: np.float32 / float / np.float64.  exact-rational oracle for quantise_scale (+ reduced form)"""
    scaling = _sc()
    m, shift = sut("C09/quantise_scale", case, scaling.quantise_scale, scale)
    x = Fraction(float(scale))
    _, e = math.frexp(float(scale))
    in_range = -32 <= e <= 31  # shift = 31 - e in [0, 63]
    m, shift = int(m), int(shift)
    if not in_range:
        if m != 0:
            raise Violation("C09/quantise_scale/out-of-range", "scale %r outside the 6-bit shift range gives multiplier %d shift %d" % (scale, m, shift), case)
        if not (0 <= shift <= 63):
            raise Violation("C09/quantise_scale/shift-field", "shift %d not a 6-bit value" % shift, case)
    else:
        if not ((1 << 30) <= m <= (1 << 31)):
            raise Violation("C09/quantise_scale/multiplier-range", "scale %r -> multiplier %d outside [2^30, 2^31]" % (scale, m), case)
        if not (0 <= shift <= 63):
            raise Violation("C09/quantise_scale/shift-range", "scale %r -> shift %d" % (scale, shift), case)
        val = Fraction(m, 1 << shift)
        if abs(val - x) > x / (1 << 31):
            raise Violation("C09/quantise_scale/precision", "scale %r -> (%d, %d) relative error %.3e > 2^-31" % (scale, m, shift, float(abs(val - x) / x)), case)
        if -31 <= e <= 29:  # (e == 30 may round up into the reference's clamp at shift 30)
            tm, ts = tflref.quantize_multiplier(float(scale))
            if tflref.multiplier_value(tm, ts) != val:
                raise Violation("C09/quantise_scale/reference", "scale %r -> (%d, %d) but TFLite QuantizeMultiplier gives (%d, %d)" % (scale, m, shift, tm, ts), case)
    if reduced:
        rm, rs = sut("C09/reduced_quantise_scale", case, scaling.reduced_quantise_scale, scale)
        rm, rs = int(rm), int(rs)
        if not in_range:
            if rm != 0:
                raise Violation("C09/reduced/out-of-range", "scale %r -> reduced multiplier %d" % (scale, rm), case)
        elif e <= 15:
            if not ((1 << 14) <= rm <= 32767) or not (0 <= rs <= 63):
                raise Violation("C09/reduced/range", "scale %r -> reduced (%d, %d)" % (scale, rm, rs), case)
            val = Fraction(rm, 1 << rs)
            if abs(val - x) > x / (1 << 14):
                raise Violation("C09/reduced/precision", "scale %r -> reduced (%d, %d) relative error %.3e > 2^-14" % (scale, rm, rs, float(abs(val - x) / x)), case)
            if m < (1 << 31):
                exp_rm = ((m + (1 << 15)) >> 16) if m < 0x7FFF0000 else 0x7FFF
                if (rm, rs) != (exp_rm, shift - 16):
                    raise Violation("C09/reduced/reference", "scale %r -> reduced (%d, %d), reference (%d, %d)" % (scale, rm, rs, exp_rm, shift - 16), case)
    if rec is not None and in_range:
        frac, _ = math.frexp(float(scale))
        if frac != 0.5:
            return True
    return False


def f32_from(mant, exp):
    import numpy as np

    return np.float32(math.ldexp(float((1 << 23) | mant), exp - 23))  # 1.mant * 2^exp  (exp = unbiased)


def qs_f32_exhaustive(ctx, arg, rec):
    """all mantissas lo..hi of exponent exp, as np.float32; closed-form oracle M<<7 (then spot exact oracle)"""
    import numpy as np

    scaling = _sc()
    exp, lo, hi, step = arg
    mants = np.arange(lo, hi, step, dtype=np.int64)
    vals = np.ldexp(((1 << 23) | mants).astype(np.float64), exp - 23).astype(np.float32)
    frexp_e = exp + 1
    in_range = -32 <= frexp_e <= 31
    qs = scaling.quantise_scale
    n_nt = 0
    for i in range(len(vals)):
        v = vals[i]
        m, s = qs(v)
        M = (1 << 23) | int(mants[i])
        if in_range:
            ok = int(m) == (M << 7) and int(s) == 31 - frexp_e
        else:
            ok = int(m) == 0 and 0 <= int(s) <= 63
        if not ok:
            case = dict(kind="qs", scale=float(v), typ="np.float32")
            try:
                rec.check(lambda c, r: check_qs(v, c, r), case, rec)
                raise Violation("C09/quantise_scale/closed-form", "scale %r -> (%s, %s), expected (%d, %d)" % (v, m, s, M << 7, 31 - frexp_e), case)
            except Violation as vi:
                rec.violation(vi)
                return
        if in_range and mants[i] != 0:
            n_nt += 1
    rec.case(len(vals))
    rec.cls("f32-exp%d" % exp)
    # distinct non-trivial values are counted (they are all different floats); keep memory small: one key per 4096
    for k in range(n_nt // 4096 + (1 if n_nt else 0)):
        rec.nontrivial.add("f32e%d:%d:%d" % (exp, lo, k))
    rec.notes.append("float32 exponent %d mantissas [%d,%d) step %d: %d values, %d non-trivial (counted in blocks of 4096 in distinct_nontrivial)" % (exp, lo, hi, step, len(vals), n_nt))
    if step == 1 and len(rec.samples) < 2:
        rec.samples.append(dict(kind="qs-f32-block", exponent=exp, mantissas=[lo, hi], first=float(vals[0])))


def qs_mixed(ctx, arg, rec):
    """every float32 exponent x special + sampled mantissas, three argument types, exact oracle"""
    import numpy as np

    shard, nshards, nrand = arg
    rng = np.random.default_rng(sub_seed(ctx.seed, "qsmixed", shard))
    specials = [0, 1, 2, (1 << 23) - 1, (1 << 23) - 2, 1 << 22, (1 << 22) - 1, (1 << 22) + 1, 0x555555, 0x2AAAAA, 1 << 16, (1 << 16) - 1]
    for exp in range(-45, 41):
        if (exp + 45) % nshards != shard:
            continue
        mants = specials + [int(x) for x in rng.integers(0, 1 << 23, size=nrand)]
        for mant in mants:
            v32 = f32_from(mant, exp)
            for typ, v in (("np.float32", v32), ("float", float(v32)), ("np.float64", np.float64(v32))):
                case = dict(kind="qs", scale=float(v32), typ=typ)
                rec.case()
                try:
                    nt = rec.check(lambda c, r: check_qs(v, c, r), case, rec)
                except Violation as vi:
                    rec.violation(vi)
                    return
                if nt:
                    rec.nontriv("qs:%r:%s" % (float(v32), typ), sample=case)
        rec.cls("qs-mixed")


def qs_f64_strategy():
    from hypothesis import strategies as st
    import numpy as np

    f32 = st.floats(min_value=float(np.float32(1e-9)), max_value=float(np.float32(1e4)), width=32)

    def near_pow2(t):
        k, d, up = t
        v = math.ldexp(1.0, k)
        for _ in range(d):
            v = math.nextafter(v, math.inf if up else 0.0)
        return v

    return st.one_of(
        st.tuples(st.integers(-34, 33), st.integers(0, 4), st.booleans()).map(near_pow2),
        st.tuples(st.integers(-34, 33), st.integers(1, 40)).map(lambda t: math.ldexp(1.0 - math.ldexp(1.0, -t[1]), t[0])),
        st.floats(min_value=1e-12, max_value=1e10),
        st.tuples(f32, f32).map(lambda t: float(np.float32(t[0])) / float(np.float32(t[1]))),
        st.tuples(f32, f32, f32).map(lambda t: float(np.float32(t[0])) * float(np.float32(t[1])) / float(np.float32(t[2]))),
    ).map(lambda v: dict(kind="qs", scale=v, typ="float"))


def oracle_qs_case(case, rec=None):
    import numpy as np

    v = case["scale"]
    v = {"float": float, "np.float32": np.float32, "np.float64": np.float64}[case["typ"]](v)
    nt = check_qs(v, case, rec)
    if rec is not None and nt:
        rec.nontriv("qs:%r:%s" % (case["scale"], case["typ"]), sample=case)


def qs_f64(ctx, arg, rec):
    shard, n = arg
    run_hypothesis(rec, qs_f64_strategy(), oracle_qs_case, n, sub_seed(ctx.seed, PROPERTY, "f64", shard), shrink=True)


# ----------------------------------------------------------------------------------------------------------
def _pool_eval(acc, scale, shift):
    nat = (acc * scale + (1 << (shift - 1))) >> shift if shift > 0 else acc * scale
    return nat


def _pool_eval_tfl(acc, scale, shift):
    s = 31 - shift
    left = s if s > 0 else 0
    right = -s if s < 0 else 0
    ab = acc * (1 << left) * scale
    nudge = (1 << 30) if ab >= 0 else 1 - (1 << 30)
    x = ab + nudge
    q = abs(x) >> 31
    q = q if x >= 0 else -q
    return tflref.rounding_divide_by_pot(q, right)


def check_pool_window(n, accs, case, rec=None, bits=8):
    """accs: iterable of Python ints"""
    scaling = _sc()
    scale, shift = sut("C09/quantise_pooling_scale", case, scaling.quantise_pooling_scale, n)
    scale, shift = int(scale), int(shift)
    if not (0 <= shift <= 63) or not (0 < scale < (1 << 32)):
        raise Violation("C09/pool/fields", "window %d -> scale %d shift %d not representable (32-bit scale, 6-bit shift)" % (n, scale, shift), case)
    nt = 0
    for acc in accs:
        want_up = tflref.round_half_up(Fraction(acc, n))
        want_away = tflref.avgpool_reference(acc, n)
        models = [("natural", _pool_eval(acc, scale, shift))]
        if bits == 8 and n <= 256:
            models.append(("tfl", _pool_eval_tfl(acc, scale, shift)))
        for name, got in models:
            if got != want_up and got != want_away:
                raise Violation("C09/pool/%s" % name, "window %d (scale %d shift %d) %d-bit accumulator %d -> %d, expected %d" % (n, scale, shift, bits, acc, got, want_away),
                                dict(case, acc=acc))
        if acc % n:
            nt += 1
    return nt


def pool_vector(ctx, arg, rec):
    """all reachable accumulators, vectorised with int64 (safe: |acc*scale| < 2^57)"""
    import numpy as np

    scaling = _sc()
    windows, maxabs, bits = arg
    for n in windows:
        case = dict(kind="pool", window=n, bits=bits)
        scale, shift = sut("C09/quantise_pooling_scale", case, scaling.quantise_pooling_scale, n)
        scale, shift = int(scale), int(shift)
        lim = n * maxabs
        assert lim * scale < (1 << 62)
        acc = np.arange(-lim, lim + 1, dtype=np.int64)
        nat = (acc * scale + (1 << (shift - 1))) >> shift
        # expected: floor(acc/n + 1/2) == floor((2acc + n) / 2n)
        up = (2 * acc + n) // (2 * n)
        away = np.where(acc > 0, (acc + n // 2) // n, -((-(acc - n // 2)) // n))
        bad = np.nonzero((nat != up) & (nat != away))[0]
        rec.case(len(acc))
        if len(bad):
            a = int(acc[bad[0]])
            try:
                rec.check(lambda c, r: check_pool_window(n, [a], c, r, bits), case, rec)
                raise Violation("C09/pool/natural", "window %d accumulator %d mis-rounded (vector pass)" % (n, a), dict(case, acc=a))
            except Violation as v:
                rec.violation(v)
                return
        # TFL double rounding evaluated exactly on ties, neighbours and range ends (python ints)
        pts = set()
        for q in range(-3, 4):
            for d in (-1, 0, 1):
                pts.add(q * n + n // 2 + d)
                pts.add(-(q * n + n // 2) + d)
        pts.update((-lim, -lim + 1, lim - 1, lim, 0, 1, -1))
        pts = [p for p in pts if -lim <= p <= lim]
        try:
            rec.check(lambda c, r: check_pool_window(n, pts, c, r, bits), case, rec)
        except Violation as v:
            rec.violation(v)
            return
        rec.case(len(pts))
        rec.nontriv("pool:%d:%d" % (bits, n), sample=dict(case, scale=scale, shift=shift, accumulators=[-lim, lim]))
    rec.cls("pool-%dbit-all-acc" % bits)
    rec.exhaustive = True


def pool_points(ctx, arg, rec):
    """large windows: ties, neighbours, range ends; exact python ints"""
    windows, maxabs, bits = arg
    for n in windows:
        case = dict(kind="pool", window=n, bits=bits)
        lim = n * maxabs
        pts = set()
        for q in list(range(-3, 4)) + [maxabs - 1, maxabs - 2, maxabs // 2, -maxabs + 1, -maxabs // 2]:
            for d in (-1, 0, 1):
                pts.add(q * n + n // 2 + d)
                pts.add(q * n + d)
        pts.update((-lim, lim, lim - 1, -lim + 1))
        pts = sorted(p for p in pts if -lim <= p <= lim)
        rec.case(len(pts))
        try:
            nt = rec.check(lambda c, r: check_pool_window(n, pts, c, r, bits), case, rec)
        except Violation as v:
            rec.violation(v)
            return
        rec.nontriv("poolpts:%d:%d" % (bits, n), sample=dict(case, points=len(pts)))
    rec.cls("pool-%dbit-points" % bits)


# ----------------------------------------------------------------------------------------------------------
def check_triple(case, rec=None):
    import numpy as np

    scaling = _sc()
    s1, s2, so = (np.float32(case[k]) for k in ("s1", "s2", "so"))
    op = case["op"]
    if op == "mul":
        m, sh = sut("C09/elementwise_mul_scale", case, scaling.elementwise_mul_scale, s1, s2, so)
        val = Fraction(int(m), 1 << int(sh)) if 0 <= int(sh) else None
        d64 = float(s1) * float(s2) / float(so)
        d32 = float(np.float32(np.float32(s1 * s2) / so))
        ok = False
        for d in (d64, d32):
            _, e = math.frexp(d)
            if not (-31 <= e <= 29):
                ok = ok or int(m) == 0 or True  # outside the reference's range: only the quantise_scale contract applies
                continue
            tm, ts = tflref.quantize_multiplier(d)
            if tflref.multiplier_value(tm, ts) == val:
                ok = True
        if not ok:
            raise Violation("C09/mul/reference", "mul scales %r*%r/%r -> (%d, %d), reference %s" % (s1, s2, so, m, sh, tflref.quantize_multiplier(d64)), case)
    else:
        bits = case["bits"]
        in_scale, in_shift, out_scale, out_shift, op_to_scale = sut("C09/advanced_add_sub", case, scaling.advanced_elementwise_add_sub_scale, s1, s2, so, bits)
        left_shift, (m1, e1), (m2, e2), (mo, eo) = tflref.add_sub_params(s1, s2, so, bits)
        # operand chosen for scaling = the one with the smaller scale (ties: either, the other has multiplier 1/2 too)
        want_op = 1 if float(s1) < float(s2) else 2
        if float(s1) != float(s2) and int(op_to_scale) != want_op:
            raise Violation("C09/addsub/operand", "scales %r,%r: operand %s scaled, expected %d" % (s1, s2, op_to_scale, want_op), case)
        mi, ei = (m1, e1) if want_op == 1 else (m2, e2)
        # Vela's input multiplier carries the 2^left_shift factor: value = (s_min / 2 s_max) * 2^left_shift
        got_in = Fraction(int(in_scale), 1 << int(in_shift))
        want_in = tflref.multiplier_value(mi, ei) * (1 << left_shift)
        if got_in != want_in:
            raise Violation("C09/addsub/input-scale", "scales %r,%r,%r %d-bit: operand scale (%d, %d) = %s, reference (%d, %d)*2^%d" % (
                s1, s2, so, bits, in_scale, in_shift, float(got_in), mi, ei, left_shift), case)
        _, eo_f = math.frexp(2.0 * max(float(s1), float(s2)) / ((1 << left_shift) * float(so)))
        if -31 <= eo_f <= 29:
            got_out = Fraction(int(out_scale), 1 << int(out_shift))
            if got_out != tflref.multiplier_value(mo, eo):
                raise Violation("C09/addsub/output-scale", "scales %r,%r,%r %d-bit: output scale (%d, %d), reference (%d, %d)" % (
                    s1, s2, so, bits, out_scale, out_shift, mo, eo), case)
    if rec is not None:
        rec.cls(op)
        if float(s1) != float(s2):
            rec.nontriv([case["op"], case.get("bits"), case["s1"], case["s2"], case["so"]], sample=case)


def triple_strategy():
    from hypothesis import strategies as st
    import numpy as np

    def f32(v):
        return float(np.float32(v))

    base = st.one_of(st.floats(min_value=f32(1e-5), max_value=4.0, width=32), st.sampled_from([1 / 256, 1 / 128, 0.5, 1.0, 0.00390625, 0.0078125, 0.1, 0.05]),
                     st.integers(1, 1 << 20).map(lambda k: f32(k / 65536.0)))

    @st.composite
    def triple(draw):
        op = draw(st.sampled_from(["add", "add", "sub", "mul"]))
        s1 = f32(draw(base))
        mode = draw(st.integers(0, 4))
        if mode == 0:
            s2 = s1
        elif mode == 1:  # ratio next to a power of two
            k = draw(st.integers(-6, 6))
            s2 = f32(s1 * 2.0 ** k)
            for _ in range(draw(st.integers(0, 2))):
                s2 = float(np.nextafter(np.float32(s2), np.float32(draw(st.sampled_from([0.0, 100.0])))))
        else:
            s2 = f32(draw(base))
        so = f32(draw(base)) if draw(st.booleans()) else f32(max(s1, s2) * draw(st.sampled_from([1.0, 2.0, 0.5, 1.5])))
        if so <= 0 or s2 <= 0:
            so, s2 = max(so, 1e-5), max(s2, 1e-5)
        return dict(kind="triple", op=op, s1=s1, s2=f32(s2), so=f32(so), bits=draw(st.sampled_from([8, 8, 16])))

    return triple()


def triples(ctx, arg, rec):
    shard, n = arg
    run_hypothesis(rec, triple_strategy(), check_triple, n, sub_seed(ctx.seed, PROPERTY, "triples", shard), shrink=True)


# ----------------------------------------------------------------------------------------------------------
# ---- part C: the OPA/OPB/OFM scale registers an ADD/SUB operation is given ---------------------------------
def check_regs(case, rec=None):
    """one ADD/SUB NpuElementWiseOperation through api.npu_generate_register_command_stream; the decoded OPA_SCALE / OPB_SCALE / OFM_SCALE registers (whatever
    derivation produced them: 'simplified' for equal input scales, 'advanced' otherwise) must denote the reference's end-to-end gains: every scaled operand reaches
    the output with s_i / s_out, to within the two Q31 roundings the reference itself makes (2^-29 relative)"""
    import numpy as np

    import csdec
    import hw
    import props.c06 as c06

    api = c06._api()
    accel = case["accel"]
    accel_enum = getattr(api.NpuAccelerator, hw.ACCELS[accel]["enum"])
    dt = case["dtype"]
    esz = 2 if dt == "int16" else 1
    f32 = bool(case.get("np_float32"))

    def fm(base, scale, zp):
        return dict(dtype=dt, region=1, shape=[4, 4, 16], layout="NHWC", tiles=[4, 0, 4, [base, 0, 0, 0]], zp=zp, scale=np.float32(scale) if f32 else float(scale), strides=None)

    zp = 0 if dt == "int16" else case.get("zp", 0)
    spec = dict(kind="elementwise", mode=case["op"], ifm=fm(0, case["s1"], zp), ifm2=fm(4 * 4 * 16 * esz, case["s2"], zp), ofm=fm(2 * 4 * 4 * 16 * esz, case["so"], zp), reversed=False, rounding="TFL")
    op = c06.build_op(api, spec, accel_enum)
    blk = c06.choose_block(api, op, spec, accel_enum, case)
    if blk is None:
        return
    op.block_config = blk
    words = sut("C09/regs/generate", case, api.npu_generate_register_command_stream, [op], accel_enum)
    cmds = [c for c in csdec.decode_words([int(w) for w in words]) if c.kind == "elementwise"]
    f = csdec.fields(cmds[0])
    s1, s2, so = Fraction(float(np.float32(case["s1"]))), Fraction(float(np.float32(case["s2"]))), Fraction(float(np.float32(case["so"])))
    ofm_m, ofm_sh = f["ofm_scale"]
    out = Fraction(int(ofm_m), 1 << int(ofm_sh))
    mode = f["ifm"]["scale_mode"]
    opa_m, opa_sh = f["opa_scale"]
    opb_m = f["opb_scale"][0] if isinstance(f["opb_scale"], (tuple, list)) else f["opb_scale"]
    tol = Fraction(1, 1 << 29)

    def close(got, want, what):
        if want == 0 or abs(got / want - 1) > tol:
            raise Violation("C09/regs/" + what, "%s %s scales %r,%r -> %r: registers OPA=(%d,%d) OPB=%d OFM=(%d,%d) mode %d: %s gain %.12g, reference %.12g" % (
                dt, case["op"], case["s1"], case["s2"], case["so"], opa_m, opa_sh, opb_m, ofm_m, ofm_sh, mode, what, float(got), float(want)), case)

    bits = 16 if dt == "int16" else 8
    _, eo = math.frexp(float(2 * max(s1, s2) / so / (1 << (15 if bits == 16 else 20))))
    if not (-31 <= eo <= 29):
        if rec is not None:
            rec.cls("regs-output-scale-outside-reference-range")
        return
    if mode == 0:
        # both operands scaled by 16-bit factors (equal input scales): gain of operand i = OPi * OFM
        close(Fraction(int(opa_m)) * out, s1 / so, "operand-a")
        close(Fraction(int(opb_m)) * out, s2 / so, "operand-b")
    else:
        # one operand scaled by (OPA_SCALE, shift): the smaller scale; the other one enters with 2^left_shift (the reference's left shift: 20 for 8 bit, 15 for 16 bit)
        small, large = (s1, s2) if s1 < s2 else (s2, s1)
        close(Fraction(int(opa_m), 1 << int(opa_sh)) * out, small / so, "scaled-operand")
        close(Fraction(1 << (15 if bits == 16 else 20)) * out / 2, large / so, "unscaled-operand")
    if rec is not None:
        rec.cls("regs-mode-%d" % mode, "regs-%s" % dt)
        rec.nontriv(["regs", case["op"], dt, case["s1"], case["s2"], case["so"]], sample=case)


def regs_strategy():
    from hypothesis import strategies as st
    import numpy as np

    import hw

    def f32(v):
        return float(np.float32(v))

    base = st.one_of(st.floats(min_value=f32(1e-4), max_value=2.0, width=32), st.sampled_from([1 / 256, 1 / 128, 0.5, 1.0, 0.00390625, 0.0078125, 0.1, 0.05, 0.003, 0.103]),
                     st.integers(1, 1 << 16).map(lambda k: f32(k / 65536.0)))

    @st.composite
    def case(draw):
        s1 = f32(draw(base))
        mode = draw(st.integers(0, 3))
        if mode <= 1:
            s2 = s1  # equal input scales: the 'simplified' derivation (always for 16 bit; for 8 bit when the output multiplier has twelve zero low bits)
        elif mode == 2:
            s2 = f32(s1 * 2.0 ** draw(st.integers(-3, 3)))
        else:
            s2 = f32(draw(base))
        so = f32(max(s1, s2) * draw(st.sampled_from([1.0, 2.0, 0.5, 4.0, 1.0, 2.0]))) if draw(st.integers(0, 2)) else f32(draw(base))
        dt = draw(st.sampled_from(["int8", "uint8", "int16", "int16"]))
        return dict(kind="regs", accel=draw(st.sampled_from(hw.ACCEL_NAMES)), op=draw(st.sampled_from(["ADD", "SUB"])), dtype=dt, s1=s1, s2=s2, so=so,
                    np_float32=draw(st.booleans()), zp=draw(st.integers(0, 5)) if dt != "int16" else 0)

    return case()


def regs(ctx, arg, rec):
    shard, n = arg
    run_hypothesis(rec, regs_strategy(), check_regs, n, sub_seed(ctx.seed, PROPERTY, "regs", shard), shrink=True)


# ----------------------------------------------------------------------------------------------------------
# ---- part B: packed scale records of compiled networks ---------------------------------------------------
def artefact_case(case, rec=None):
    """every (bias, scale, shift) record of every convolution-type NPU operation of a compiled network is compared, channel by channel, with the reference derivation
    from the *source* operator's quantisation parameters and bias tensor"""
    import numpy as np

    import artefact as artefact_mod
    import csdec
    import e2e
    import fbwrite
    import npusim
    import payload
    import tflinterp
    import vmodel

    try:
        art, res = e2e.compile_case(case, capture=True)
    except (artefact_mod.ArtefactError, vmodel.ModelError, payload.PayloadError, csdec.DecodeError) as e:
        raise Violation("C09/artefact/malformed", "%s: %s" % (type(e).__name__, e), case)
    if res.get("harness"):
        raise HarnessError("harness failure: %s" % (res["exc"][3],))
    if art is None or not art.npu_ops:
        return
    src = vmodel.load(fbwrite.build(case["spec"]))
    T = src["subgraphs"][0]["tensors"]
    by_out = {T[o["outputs"][0]]["name"]: o for o in src["subgraphs"][0]["ops"] if o["code"] in ("CONV_2D", "DEPTHWISE_CONV_2D", "FULLY_CONNECTED")}
    streams = [cap["ops"] for cap in res["captured"]]
    compared = 0
    for si, nop in enumerate(art.npu_ops):
        cmds = [c for c in nop.cmds() if c.kind in ("conv", "depthwise", "pool", "elementwise", "dma")]
        labels = streams[si] if si < len(streams) else []
        if len(labels) != len(cmds):
            continue
        mem = {0: nop.flash}
        # weights/scales may have been copied to SRAM by a DMA: replay the copies over plain byte arrays so that the records can be read where the operation reads them
        sizes = {1: max(art.arena_size(), art.nbytes(nop.scratch_i), 1), 2: max(art.nbytes(nop.fast_i), 1)}
        for r, n in sizes.items():
            mem[r] = bytearray(n)
        for c, lab in zip(cmds, labels):
            f = csdec.fields(c)
            if c.kind == "dma":
                sr, dr = f["src_region"], f["dst_region"]
                if dr in mem and sr in mem and f["src"] + f["length"] <= len(mem[sr]) and f["dst"] + f["length"] <= len(mem[dr]) and not isinstance(mem[dr], bytes):
                    mem[dr][f["dst"]: f["dst"] + f["length"]] = bytes(mem[sr][f["src"]: f["src"] + f["length"]])
                continue
            so = by_out.get(lab.get("op_name")) or by_out.get(lab.get("ofm"))  # (rewrites may rename the operator: a 1x1 convolution turned into a fully connected one gets "_fc")
            if c.kind not in ("conv", "depthwise") or so is None or lab.get("ofm_box") is None:
                continue
            want_kind = {"CONV_2D": "Conv2DBias", "DEPTHWISE_CONV_2D": "DepthwiseConv2DBias", "FULLY_CONNECTED": "FullyConnected"}[so["code"]]
            if lab.get("original_type") != want_kind:
                continue
            it, wt, ot = T[so["inputs"][0]], T[so["inputs"][1]], T[so["outputs"][0]]
            bt = T[so["inputs"][2]] if len(so["inputs"]) > 2 and so["inputs"][2] >= 0 else None
            if it["dtype"] not in ("int8", "uint8", "int16") or it["scale"] is None or wt["scale"] is None or ot["scale"] is None:
                continue
            try:
                W, bias, scl, shf, _ = npusim.decode_weight_volume(mem, f, art.accel)
            except npusim.SimError as e:
                raise Violation("C09/artefact/unreadable", "%s: %s" % (lab.get("op_name"), e), case)
            c0, c1 = lab["ofm_box"][0][3], lab["ofm_box"][1][3]
            sw = np.asarray(wt["scale"], np.float32)
            m, e = tflinterp.conv_multipliers(np.float32(it["scale"][0]), sw, np.float32(ot["scale"][0]), it["dtype"] == "uint8" or so["code"] == "FULLY_CONNECTED")  # FC takes the float32 product of the two scales (GetQuantizedConvolutionMultipler)
            if len(m) == 1:
                m, e = np.repeat(m, c1), np.repeat(e, c1)
            bvals = vmodel.tensor_array(bt).astype(np.int64) if bt is not None and bt["data"] is not None else np.zeros(c1, np.int64)
            wide = it["dtype"] == "int16" and bt is not None and bt["dtype"] == "int64"
            for k, ch in enumerate(range(c0, c1)):
                mm, ee = int(m[ch]), int(e[ch])
                if wide:
                    rm = ((mm + (1 << 15)) >> 16) if mm < 0x7FFF0000 else 0x7FFF
                    want = (rm, 15 - ee)
                else:
                    want = (mm, 31 - ee)
                got = (int(scl[k]), int(shf[k]))
                # the same value may be written (2^31, s) or (2^30, s-1); a zero multiplier has no meaningful shift
                same = got == want or (want[0] == 0 and got[0] == 0) or (got[0] == 2 * want[0] and got[1] == want[1] + 1) or (2 * got[0] == want[0] and got[1] + 1 == want[1])
                if not same:
                    raise Violation("C09/artefact/scale", "%s channel %d: packed (scale, shift) = %s but the reference derivation from input %r x weight %r / output %r gives %s" % (
                        lab.get("op_name"), ch, got, it["scale"][0], float(sw[ch] if len(sw) > 1 else sw[0]), ot["scale"][0], want), case)
                if ch < len(bvals) and int(bias[k]) != int(bvals[ch]):
                    raise Violation("C09/artefact/bias", "%s channel %d: packed bias %d, source bias %d" % (lab.get("op_name"), ch, int(bias[k]), int(bvals[ch])), case)
                compared += 1
    if rec is not None and compared:
        rec.cls("artefact-records-compared")
        rec.nontriv(["artefact", case], sample=dict(kind="artefact", ops=[o["code"] for o in case["spec"]["ops"]], accel=art.accel, records=compared, dtype=case["spec"]["tensors"][case["spec"]["inputs"][0]]["dtype"]))


def artefacts(ctx, arg, rec):
    import e2e
    from runner import run_hypothesis

    shard, n = arg
    prof = ["convs", "exact", "exact16", "cascade", "head", "convs", "head", "exact16"][shard % 8]
    strat = e2e.case_strategy(prof, max_ops=4, big=prof == "cascade", small_arena=prof == "cascade", dtypes=("int16",) if prof == "exact16" else ("int8", "int8", "uint8", "int16"))
    run_hypothesis(rec, strat, artefact_case, n, sub_seed(ctx.seed, PROPERTY, "artefact", shard))


def parts(ctx):
    ps = []
    q = ctx.quick
    ps += [Part("artefact%02d" % i, artefacts, (i, 12 if q else 500)) for i in range(8)]
    # float32 exhaustive exponents (unbiased exponent of 1.m * 2^exp)
    exps = [-8] if q else [-41, -34, -33, -32, -31, -17, -8, -2, -1, 0, 14, 30, 31]
    for exp in exps:
        nsh = 16 if q else 4
        blk = (1 << 23) // nsh
        ps += [Part("f32exh_e%d_%02d" % (exp, i), qs_f32_exhaustive, (exp, i * blk, (i + 1) * blk, 1)) for i in range(nsh)]
    if q:  # strided pass over other interesting exponents
        ps += [Part("f32stride_e%d" % exp, qs_f32_exhaustive, (exp, sub_seed(ctx.seed, exp) % 64, 1 << 23, 64)) for exp in (-34, -33, -32, -1, 0, 30, 31)]
    ps += [Part("qsmixed%02d" % i, qs_mixed, (i, 8, 40 if q else 2000)) for i in range(8)]
    ps += [Part("qsf64_%02d" % i, qs_f64, (i, 1500 if q else 60000)) for i in range(8)]
    # pooling
    wins = list(range(1, 257))
    ps += [Part("pool8_%02d" % i, pool_vector, (wins[i::8], 255, 8)) for i in range(8)]
    ps += [Part("pool16_small_%d" % i, pool_vector, (list(range(1, 13 if q else 33))[i::4], 65535, 16)) for i in range(4)]
    big8 = sorted(set(list(range(257, 65537, 97 if q else 7)) + [2 ** k + d for k in range(8, 17) for d in (-1, 0, 1) if 257 <= 2 ** k + d <= 65536]))
    big16 = sorted(set(list(range(13, 16385, 53 if q else 3)) + [2 ** k + d for k in range(4, 15) for d in (-1, 0, 1) if 13 <= 2 ** k + d <= 16384]))
    ps += [Part("pool8_big%d" % i, pool_points, (big8[i::4], 255, 8)) for i in range(4)]
    ps += [Part("pool16_big%d" % i, pool_points, (big16[i::4], 65535, 16)) for i in range(4)]
    ps += [Part("triples%02d" % i, triples, (i, 1200 if q else 60000)) for i in range(8)]
    ps += [Part("regs%02d" % i, regs, (i, 250 if q else 12000)) for i in range(8)]
    return ps


def replay(ctx, case):
    k = case.get("kind")
    if k == "qs":
        oracle_qs_case(case, None)
    elif k == "pool":
        n = case["window"]
        accs = [case["acc"]] if "acc" in case else list(range(-n * 255, n * 255 + 1))
        check_pool_window(n, accs, case, None, case.get("bits", 8))
    elif k == "triple":
        check_triple(case, None)
    elif k == "regs":
        check_regs(case, None)
    elif "spec" in case:
        artefact_case(case, None)
    else:
        raise Violation("C09/replay", "unknown case kind", case)

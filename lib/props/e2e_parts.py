"""end-to-end parts shared by several properties: compile a generated network, then evaluate one property's oracle on
the artefact (and, where stated, on operation lists captured from the compiler as labels)."""
import copy

from runner import Part, Violation, sub_seed, run_hypothesis, HarnessError
import artefact
import csdec
import e2e
import footprint as fpm
import hazard
import hw
import payload
import vmodel

PROFILE = {"C17": "npu", "C02": "npu", "C04": "npu", "C06": "npu", "C15": "npu", "C10": "npu", "C12": "wide", "C03": "npu"}
QUICK_N = {"C17": 12, "C02": 40, "C04": 25, "C06": 25, "C15": 20, "C10": 40, "C12": 40, "C03": 40}
THOROUGH_N = {"C17": 300, "C02": 1500, "C04": 800, "C06": 800, "C15": 600, "C10": 1200, "C12": 1500, "C03": 1200}


def _compile(case, prop, capture=False):
    try:
        art, res = e2e.compile_case(case, capture=capture)
    except (artefact.ArtefactError, vmodel.ModelError, payload.PayloadError, csdec.DecodeError) as e:
        raise Violation("%s/artefact-malformed" % prop, "%s: %s" % (type(e).__name__, e), case)
    if res.get("harness"):
        raise HarnessError("harness failure: %s" % (res["exc"][3],))
    return art, res


# ---- C17 part B ----------------------------------------------------------------------------------------
def c17(case, rec=None):
    art, res = _compile(case, "C17")
    if art is None:
        return False
    for nop in art.npu_ops:
        try:
            info = nop.parse_payload(art.accel)
        except payload.PayloadError as e:
            raise Violation("C17/artefact/frame", "ethos-u operator %d: %s" % (nop.index, e), case)
        if nop.cs_t["shape"] != [len(nop.payload)] or nop.cs_t["dtype"] != "uint8":
            raise Violation("C17/artefact/tensor-shape", "command_stream tensor shape %s/%s but the payload has %d bytes" % (nop.cs_t["shape"], nop.cs_t["dtype"], len(nop.payload)), case)
        buf = art.model["buffers"][nop.cs_t["buffer"]]
        if buf and buf["offset"] % 16:
            raise Violation("C17/artefact/buffer-alignment", "command stream buffer at file offset %d is not 16-byte aligned" % buf["offset"], case)
        try:
            cmds = nop.cmds()
        except csdec.DecodeError as e:
            raise Violation("C17/artefact/stream", str(e), case)
        if not cmds or cmds[-1].kind != "stop":
            raise Violation("C17/artefact/stop", "command words do not end with NPU_OP_STOP", case)
    if rec is not None and art.npu_ops:
        rec.cls("artefact")
        rec.nontriv(["artefact", case], sample=dict(kind="artefact", accel=art.accel, payload_bytes=[len(n.payload) for n in art.npu_ops]))
    return bool(art.npu_ops)


# ---- C02 -----------------------------------------------------------------------------------------------
def c02(case, rec=None):
    art, res = _compile(case, "C02")
    if art is None:
        return False
    feats = set()
    spilling = case["cfg"]["memory_mode"] == "Dedicated_Sram" or (case["cfg"]["memory_mode"] == "default" and "u65" in art.accel)
    for nop in art.npu_ops:
        ext = art.region_extents(nop)
        try:
            cmds = nop.cmds()
        except (csdec.DecodeError, payload.PayloadError) as e:
            raise Violation("C02/undecodable", str(e), case)
        if art.offset(nop.scratch_i) not in (0, None, -1):
            raise Violation("C02/scratch-offset", "scratch tensor is at arena offset %s, region 1 is based at 0" % art.offset(nop.scratch_i), case)
        for c in cmds:
            if c.kind not in ("conv", "depthwise", "pool", "elementwise", "dma"):
                continue
            try:
                f = csdec.fields(c)
            except csdec.DecodeError as e:
                raise Violation("C02/undecodable-op", str(e), case)
            reads, writes = fpm.op_footprints(f, art.accel)
            for what, fp in (("reads", reads), ("writes", writes)):
                for region, iv in fp.items():
                    if not iv:
                        continue
                    if region not in ext:
                        raise Violation("C02/region/unknown", "%s #%d %s region %d which the artefact does not publish" % (c.kind, c.index, what, region), case)
                    lo, hi = iv[0][0], iv[-1][1]
                    if lo < 0 or hi > ext[region]:
                        import constructs

                        raise Violation("C02/out-of-region/%s-region%s" % (what, "SHRAM" if region == csdec.SHRAM_REGION else region),
                                        "%s #%d of ethos-u operator %d %s bytes [0x%x,0x%x) of region %s whose published extent is %d bytes" % (
                                            c.kind, c.index, nop.index, what, lo, hi, "SHRAM" if region == csdec.SHRAM_REGION else region, ext[region]), case,
                                        tags=constructs.tags(case["spec"]))
                    if region == 2:
                        feats.add("region2")
            if 0 in writes and writes[0]:
                raise Violation("C02/write-to-flash", "%s #%d writes to the read-only region 0" % (c.kind, c.index), case)
        if spilling and case["cfg"].get("arena_cache_size") is not None and ext[2] > case["cfg"]["arena_cache_size"] and ext[2] != ext[1]:
            raise Violation("C02/fast-scratch-exceeds-cache", "scratch_fast has %d bytes, the configured arena cache size is %d" % (ext[2], case["cfg"]["arena_cache_size"]), case)
        # operands of the custom operator lie inside the arena extent the metadata implies
        for ti in list(nop.inputs) + list(nop.outputs):
            off = art.offset(ti)
            if off is not None and off >= 0 and art.tensors[ti]["data"] is None and off + art.nbytes(ti) > max(ext[1], art.arena_size()):
                raise Violation("C02/operand-outside-arena", "operand tensor %d at offset %d size %d beyond the arena" % (ti, off, art.nbytes(ti)), case)
    feats |= e2e.schedule_features(art)
    nontrivial = bool(feats & {"tiles", "nhcwb16", "dma", "region2"})
    if rec is not None:
        rec.cls(art.accel, *sorted(feats))
        if nontrivial:
            rec.nontriv([case], sample=dict(ops=[o["code"] for o in case["spec"]["ops"]], cfg=case["cfg"], features=sorted(feats)))
    return nontrivial


# ---- C04 part B -----------------------------------------------------------------------------------------
def c04(case, rec=None):
    art, res = _compile(case, "C04")
    if art is None:
        return False
    allstats = {}
    for nop in art.npu_ops:
        try:
            stats = {}
            hazard.check_stream(nop.cmds(), art.accel, stats)
        except (csdec.DecodeError, payload.PayloadError) as e:
            raise Violation("C04/undecodable", str(e), case)
        except hazard.Hazard as h:
            raise Violation("C04/artefact/hazard/%s" % h.kind, "ethos-u operator %d: %s" % (nop.index, h.msg), case)
        for k, v in stats.items():
            allstats[k] = allstats.get(k, 0) + v
    nwait = sum(1 for nop in art.npu_ops for c in nop.cmds() if c.kind in ("kernel_wait", "dma_wait"))
    nontrivial = nwait > 0 or bool(allstats.get("kernel_raw_overlap"))
    if rec is not None:
        rec.cls("artefact", *allstats)
        if nontrivial:
            rec.nontriv([case], sample=dict(kind="artefact", ops=[o["code"] for o in case["spec"]["ops"]], cfg=case["cfg"], waits=nwait, stats=allstats))
    return nontrivial


# ---- C06 part B / C15 part B -----------------------------------------------------------------------------
def _captured_pairs(case, prop):
    art, res = _compile(case, prop, capture="specs")
    if art is None:
        return None, None
    caps = res["captured"]
    if len(caps) != len(art.npu_ops):
        raise Violation("%s/artefact/stream-count" % prop, "%d register streams were generated but the output holds %d ethos-u operators" % (len(caps), len(art.npu_ops)), case)
    pairs = []
    for nop, cap in zip(art.npu_ops, caps):
        try:
            nop.parse_payload(art.accel)
            words = csdec.words_from_bytes(nop.cmd_bytes)
            cmds = nop.cmds()
        except (csdec.DecodeError, payload.PayloadError) as e:
            raise Violation("%s/undecodable" % prop, str(e), case)
        if words != cap["words"]:
            raise Violation("%s/artefact/words" % prop, "the command words in the output file differ from the words the generator returned", case)
        real = [c for c in cmds if c.kind in ("conv", "depthwise", "pool", "elementwise", "dma")]
        if len(real) != len(cap["specs"]):
            raise Violation("%s/artefact/op-count" % prop, "%d operations given to the generator, %d operation commands in the file" % (len(cap["specs"]), len(real)), case)
        pairs.append((nop, cap, cmds, real))
    return art, pairs


def c06(case, rec=None):
    import props.c06 as c06m

    art, pairs = _captured_pairs(case, "C06")
    if art is None:
        return False
    nt = False
    for nop, cap, cmds, real in pairs:
        for opi, (s, c) in enumerate(zip(cap["specs"], real)):
            if s.get("kind") == "?":
                raise HarnessError("cannot serialise captured operation: %s" % s.get("error"))
            try:
                f = csdec.fields(c)
            except csdec.DecodeError as e:
                raise Violation("C06/artefact/undecodable-op", str(e), case)
            if f["kind"] != s["kind"]:
                raise Violation("C06/artefact/op-kind", "operation %d is %s, the stream runs %s" % (opi, s["kind"], f["kind"]), case)
            exp = c06m.expected(s, art.accel)
            if s["kind"] == "pool" and s.get("explicit_scaling"):
                exp["ofm"]["global_scale"] = 0 if s["explicit_scaling"][0] else 1
                if not s["explicit_scaling"][0]:
                    exp["ofm_scale_value"] = (s["explicit_scaling"][2][0] & 0xFFFFFFFF, s["explicit_scaling"][1][0])
            try:
                c06m.compare(exp, f, "", case, opi)
                c06m.check_alignment_rules(f, case, opi)
            except Violation as v:
                v.key = v.key.replace("C06/", "C06/artefact/", 1)
                raise
            if opi >= 1:
                prev_index = real[opi - 1].index
                if any((c.written_at.get(r) is not None and c.written_at[r] < prev_index) for r in csdec.consumed_registers(c)):
                    nt = True
        if cmds[-1].kind != "stop" or sum(1 for c in cmds if c.kind == "stop") != 1:
            raise Violation("C06/artefact/stop", "stream must end with exactly one NPU_OP_STOP", case)
    if rec is not None:
        rec.cls("artefact")
        if nt:
            rec.nontriv([case], sample=dict(kind="artefact", ops=[o["code"] for o in case["spec"]["ops"]], cfg=case["cfg"], npu_operations=[len(p[3]) for p in pairs]))
    return nt


def c15(case, rec=None):
    import props.c15 as c15m

    art, pairs = _captured_pairs(case, "C15")
    if art is None:
        return False
    n = 0
    for nop, cap, cmds, real in pairs:
        for opi, (s, c) in enumerate(zip(cap["specs"], real)):
            if s["kind"] in ("dma", "?"):
                continue
            f = csdec.fields(c)
            blk = (f["block"]["height"], f["block"]["width"], f["block"]["depth"])
            sub = dict(case, block=list(blk), op_index=opi)
            c15m.check_block_shape(blk, art.accel, sub)
            try:
                c15m.check_layout(s, blk, f, art.accel, sub)
            except Violation as v:
                v.key = v.key.replace("C15/", "C15/artefact/", 1)
                raise
            n += 1
    if rec is not None:
        rec.cls("artefact")
        if n >= 2:
            rec.nontriv([case], sample=dict(kind="artefact", ops=[o["code"] for o in case["spec"]["ops"]], cfg=case["cfg"], kernel_operations=n))
    return n >= 2


# ---- C10 part B: stripe sequences of compiled networks --------------------------------------------------
def c10(case, rec=None):
    """groups the kernel operations of every stream by operator (labels), then checks (1) the OFM boxes of the group partition the region the operator writes and
    (2) for every stripe the decoded pads and the rows the hardware derives are the receptive field of the stripe's output rows"""
    art, res = _compile(case, "C10", capture=True)
    if art is None or not art.npu_ops:
        return False
    streams = [cap["ops"] for cap in res["captured"]]
    multi = False
    checked = 0
    for si, nop in enumerate(art.npu_ops):
        try:
            cmds = [c for c in nop.cmds() if c.kind in ("conv", "depthwise", "pool", "elementwise", "dma")]
        except (csdec.DecodeError, payload.PayloadError) as e:
            raise Violation("C10/undecodable", str(e), case)
        labels = streams[si] if si < len(streams) else []
        if len(labels) != len(cmds):
            if rec is not None:
                rec.cls("labels-unavailable")
            continue
        groups = {}
        for c, lab in zip(cmds, labels):
            if c.kind == "dma" or lab.get("ofm_box") is None or lab.get("label_error"):
                continue
            f = csdec.fields(c)
            o = f["ofm"]
            box = lab["ofm_box"]
            size = [b - a for a, b in zip(box[0], box[1])]
            if size[1:] != [o["height"], o["width"], o["depth"]]:
                raise Violation("C10/artefact/ofm-box", "operation of %s writes %s rows/cols/channels but its stripe box is %s" % (lab.get("op_name"), [o["height"], o["width"], o["depth"]], box), case)
            groups.setdefault((lab.get("op_name"), lab.get("ofm_eq")), []).append((c, f, lab))
        for (name, _), items in groups.items():
            lab0 = items[0][2]
            full = lab0.get("write_shape") or lab0.get("ofm_full_shape")
            off = lab0.get("write_offset") or [0, 0, 0, 0]
            if lab0.get("write_shape") is None:
                off = [0, 0, 0, 0]
            if not full:
                continue
            boxes = [it[2]["ofm_box"] for it in items]
            vol = 0
            for b in boxes:
                if any(a < o_ or e > o_ + n for a, e, o_, n in zip(b[0], b[1], off, full)):
                    raise Violation("C10/artefact/outside", "%s: stripe box %s lies outside the region %s+%s the operator writes" % (name, b, off, full), case)
                vol += (b[1][0] - b[0][0]) * (b[1][1] - b[0][1]) * (b[1][2] - b[0][2]) * (b[1][3] - b[0][3])
            for i in range(len(boxes)):
                for j in range(i + 1, len(boxes)):
                    if all(max(boxes[i][0][k], boxes[j][0][k]) < min(boxes[i][1][k], boxes[j][1][k]) for k in range(4)):
                        raise Violation("C10/artefact/overlap", "%s: stripes %s and %s overlap" % (name, boxes[i], boxes[j]), case)
            if vol != full[0] * full[1] * full[2] * full[3] and lab0.get("ofm_sub_purpose") == "RollingBufferY":
                # inside a cascade the producer only makes the rows its consumers ask for; rows nobody reads are not part of what the operator computes for
                # the network.  Every row a consumer stripe reads must still be produced
                covered = set()
                for b in boxes:
                    covered.update(range(b[0][1], b[1][1]))
                readers = [l2 for l2 in labels if not l2.get("dma") and l2.get("ifm_eq") == lab0.get("ofm_eq") and l2.get("ifm_box")]
                missing = sorted(set(y for l2 in readers for y in range(l2["ifm_box"][0][1], l2["ifm_box"][1][1])) - covered)
                if readers and not missing:
                    if rec is not None:
                        rec.cls("cascade-producer-skips-unread-rows")
                    vol = full[0] * full[1] * full[2] * full[3]
                else:
                    raise Violation("C10/artefact/gap-read", "%s: rows %s of its output are read by a cascaded consumer but produced by no stripe" % (name, missing[:8]), case)
            if vol != full[0] * full[1] * full[2] * full[3]:
                raise Violation("C10/artefact/gap", "%s: %d stripes cover %d of the %d output elements (%s)" % (name, len(boxes), vol, full[0] * full[1] * full[2] * full[3], boxes[:6]), case)
            if len(set((b[0][1], b[1][1]) for b in boxes)) >= 2:
                multi = True
            # receptive fields (no up-scaling; kernel operations only)
            for c, f, lab in items:
                if c.kind == "elementwise" or not lab.get("kernel") or lab.get("ifm_box") is None or lab.get("explicit_padding") is None:
                    continue
                if f.get("upscale"):
                    # x2 up-scaling (H2): the hardware up-scales the rows it is given starting with the first row of the stripe's IFM, i.e. the up-scaled plane of the
                    # stripe starts at up-scaled row 2*a; kernel, stride and pads apply to the up-scaled plane
                    kw, kh, sx, sy, dx, dy = lab["kernel"]
                    dk = dy * (kh - 1) + 1
                    if (lab.get("read_offsets") or [None])[0] or lab.get("write_shape") or lab.get("padding") == "TILE" or (f["kernel"]["stride_y"], f["kernel"]["dilated_h"]) != (sy, dk):
                        continue
                    P_top = lab["explicit_padding"][0]
                    H2 = 2 * (lab.get("ifm_full_shape") or [0, 0, 0, 0])[1]
                    y0, y1 = lab["ofm_box"][0][1], lab["ofm_box"][1][1]
                    r0, r1 = y0 * sy - P_top, (y1 - 1) * sy - P_top + dk
                    pt, pb = f["pad"]["top"], f["pad"]["bottom"]
                    E2 = (y1 - y0 - 1) * sy + dk - pt - pb
                    a = lab["ifm_box"][0][1]
                    checked += 1
                    where = "%s (x2 up-scaled IFM) stripe rows [%d,%d): kernel %d stride %d operator top pad %d, %d up-scaled input rows" % (name, y0, y1, dk, sy, P_top, H2)
                    if 2 * a != max(r0, 0) or pt != max(0, -r0):
                        raise Violation("C10/artefact/upscaled-top", "%s: the IFM starts at row %d (up-scaled row %d) with top pad %d, the receptive field starts at up-scaled row %d" % (where, a, 2 * a, pt, r0), case)
                    if 2 * a + E2 != min(r1, H2) or pb != max(0, r1 - H2):
                        raise Violation("C10/artefact/upscaled-bottom", "%s: bottom pad %d and %d up-scaled rows end at up-scaled row %d, the receptive field ends at up-scaled row %d" % (where, pb, E2, 2 * a + E2, r1), case)
                    b = lab["ifm_box"][1][1]
                    if b < a + -(-E2 // 2) or b > H2 // 2:
                        raise Violation("C10/artefact/upscaled-box", "%s: IFM box rows [%d,%d) do not cover the %d rows the hardware reads" % (where, a, b, -(-E2 // 2)), case)
                    if rec is not None:
                        rec.cls("artefact-upscaled-stripe-checked")
                    continue
                if lab.get("padding") == "TILE":
                    continue  # edge replication through side-by-side tiles instead of padding registers (half-pixel bilinear resize): not a zero-padding geometry
                kw, kh, sx, sy, dx, dy = lab["kernel"]
                dk = dy * (kh - 1) + 1
                P_top = lab["explicit_padding"][0]
                ro = (lab.get("read_offsets") or [None])[0]
                rs = (lab.get("read_shapes") or [None])[0]
                H = (lab.get("ifm_full_shape") or [0, 0, 0, 0])[1]
                lo = ro[1] if ro else 0
                hi = lo + (rs[1] if rs else H - lo)
                woff = (lab.get("write_offset") or [0, 0, 0, 0])[1] if lab.get("write_shape") else 0
                y0, y1 = lab["ofm_box"][0][1] - woff, lab["ofm_box"][1][1] - woff
                if (f["kernel"]["stride_y"], f["kernel"]["dilated_h"]) != (sy, dk):
                    continue  # the operation was re-expressed (e.g. kernel decomposition); part A covers the arithmetic
                r0 = y0 * sy - P_top + lo
                r1 = (y1 - 1) * sy - P_top + dk + lo
                pt, pb = f["pad"]["top"], f["pad"]["bottom"]
                E = fpm.ifm_extent(f)[0]
                a = lab["ifm_box"][0][1]
                checked += 1
                where = "%s stripe rows [%d,%d): kernel %d stride %d operator top pad %d, input rows [%d,%d)" % (name, y0, y1, dk, sy, P_top, lo, hi)
                if a != max(r0, lo) or pt != max(0, lo - r0):
                    raise Violation("C10/artefact/top", "%s: IFM starts at row %d with top pad %d, the receptive field starts at row %d" % (where, a, pt, r0), case)
                if a + E != min(r1, hi) or pb != max(0, r1 - hi):
                    needed_total = max(dk - ((hi - lo) % sy or sy), 0)
                    ep = lab["explicit_padding"]
                    bucket = "explicit-pad-exceeds-skirt" if (ep[0] + ep[2] > needed_total) else "general"
                    raise Violation("C10/artefact/bottom/%s" % bucket, "%s: bottom pad %d and %d rows read end at row %d, the receptive field ends at row %d" % (where, pb, E, a + E, r1), case)
    # third sentence of the property: no row of a rolling buffer is overwritten before its last consumer stripe has read it - the per-byte row tags of the
    # C03 walk decide it; only findings on an operand that is a cascade rolling buffer belong to C10
    from props import c03

    try:
        c03.check_case(case, None, compiled=(art, res))
    except Violation as v:
        if "ifm-rolling-buffer" in v.tags:
            raise Violation("C10/artefact/rolling-buffer/" + v.key.split("/", 1)[1], v.message if hasattr(v, "message") else str(v), case)
    if rec is not None and checked:
        rec.cls("artefact-stripes-checked")
        if multi:
            rec.nontriv(["artefact", case], sample=dict(kind="artefact", ops=[o["code"] for o in case["spec"]["ops"]], accel=art.accel, stripes_checked=checked))
    return multi


EXTRA_PROFILES = {"C02": ["fanout", "heavy", "cascade", "wide"], "C04": ["fanout", "lutmix"], "C06": ["fanout", "wide"], "C15": ["wide", "slices"]}
ORACLES = {"C17": c17, "C02": c02, "C04": c04, "C06": c06, "C15": c15, "C10": c10}


def _run(ctx, arg, rec):
    prop, shard, n = arg
    profile = PROFILE.get(prop, "npu")
    if prop == "C10" and shard % 2:
        profile = "cascade"
    if prop in EXTRA_PROFILES and shard % 4 == 3:
        # a quarter of the shards walks through the other network families (copies that cannot be bypassed, read/write offsets, table mixes, CPU/NPU mixes, reshapes)
        profile = EXTRA_PROFILES[prop][(shard // 4) % len(EXTRA_PROFILES[prop])]
    if prop == "C10" and shard == 7:
        profile = "cascade_short"
    if shard >= 100:
        # recurrent networks (UNIDIRECTIONAL_SEQUENCE_LSTM unrolled over time and batch: 16-bit element-wise arithmetic, hardware tanh/sigmoid, state tensors)
        profile = "rnn"
    strat = e2e.case_strategy(profile, small_arena=(prop in ("C02", "C03") and shard % 2 == 0) or prop == "C10")
    run_hypothesis(rec, strat, lambda case, r: ORACLES[prop](case, r), n, sub_seed(ctx.seed, prop, "e2e", shard))


def parts_for(ctx, prop, shards=8):
    if prop not in ORACLES:
        return []
    n = (QUICK_N if ctx.quick else THOROUGH_N)[prop]
    rnn = [Part("e2e-rnn%02d" % i, _run, (prop, 100 + i, max(n // 2, 8))) for i in range(1 if ctx.quick else 2)] if prop in ("C02", "C04", "C06", "C15", "C17") else []
    return [Part("e2e%02d" % i, _run, (prop, i, n)) for i in range(shards)] + rnn


def replay(ctx, prop, case):
    ORACLES[prop](case, None)

"""C08 - encoded weight and scale tensors cover each output channel exactly once (weight_compressor)."""
from runner import Part, Violation, sub_seed, run_hypothesis, sut
import extbuild
import forkcall
import hw
import tflref
import velaenv
import wref

PROPERTY = "C08"
RULE = (
    "direct calls of weight_compressor.encode_weight_and_scale_tensor on generated requests: op kind {conv, depthwise, fully-connected, transpose-conv} x "
    "IFM type {int8,uint8,int16} x bias {int32,int64} x per-tensor/per-channel scales x weight zero points x kernel (<=6x6, dilation 1-2) x block depth x "
    "6 accelerators (1 or 2 cores) x depth-slice lists with uneven slices; each returned buffer is parsed range by range (alignment, order, coverage, "
    "10-byte scale records vs the reference multiplier derivation, weight section decoded with the pinned decoder and inverted through the traversal model). "
    "Histories: sequences of 2-6 requests in one process that share weight/bias tensors and differ only in fields the cache key may omit; every returned "
    "tensor must be byte-identical to a fresh encoding of the same request in a pristine forked process. non-trivial = >=2 slices or 2 cores (single "
    "calls), >=1 request that shares its weight tensor with an earlier one (histories); distinct = request hash."
)
ASSUMPTIONS = [
    "intermediate depth-slice boundaries are multiples of 16 (ArchitectureFeatures.OFMSplitDepth), as the scheduler produces them",
    "scale reference: int8/int16 conv = double(ifm)*double(w)/double(ofm); uint8 and fully-connected = double(float32(ifm*w))/double(ofm) (TFLite kernels); "
    "int16 with int64 bias = reduced 16-bit multiplier; then QuantizeMultiplier",
    "core c of n owns channels c::n of the slice; its stream was encoded with block depth (block_depth + n - 1 - c)//n",
]

OPS = ("conv", "depthwise", "fc", "tconv")


def expand(case):
    """case (JSON) -> numpy data; deterministic in case['seed']"""
    import numpy as np

    rng = np.random.default_rng(case["seed"])
    kh, kw, ic, oc = case["kh"], case["kw"], case["ic"], case["oc"]
    kind = case["op"]
    ifm_dt = case["ifm_dtype"]
    wdt = np.uint8 if ifm_dt == "uint8" else np.int8
    if kind == "fc":
        wshape = (ic, oc)
    elif kind == "depthwise":
        wshape = (kh, kw, 1, oc)
    else:
        wshape = (kh, kw, ic, oc)
    lo, hi = (0, 256) if wdt == np.uint8 else (-127, 128)
    if case["wdist"] == "sparse":
        w = np.where(rng.random(wshape) < 0.6, 0 if wdt == np.int8 else case["wzp"], rng.integers(lo, hi, size=wshape))
    elif case["wdist"] == "index":
        w = (np.arange(int(np.prod(wshape))).reshape(wshape) * 5 + 1) % (hi - lo) + lo
    else:
        w = rng.integers(lo, hi, size=wshape)
    w = w.astype(wdt)
    perch = case["per_channel"]
    wscale = rng.uniform(0.001, 0.05, size=oc).astype(np.float32) if perch else np.float32(rng.uniform(0.001, 0.05))
    bias_dt = np.int64 if case["bias64"] else np.int32
    bmax = (1 << 30) if not case["bias64"] else (1 << 38)
    bias = rng.integers(-bmax, bmax, size=oc).astype(bias_dt)
    bias[rng.integers(0, oc)] = bmax - 1
    bias[rng.integers(0, oc)] = -bmax
    return w, wscale, bias


def build(case, shared=None):
    """-> kwargs for encode_weight_and_scale_tensor.  shared: dict cache of tensors keyed by case['wkey']/['bkey'] so that
    requests in one history reuse the same Tensor objects"""
    velaenv.init()
    import numpy as np
    from ethosu.vela.architecture_features import Accelerator, create_default_arch
    from ethosu.vela.architecture_allocator import ArchitectureBlockConfig
    from ethosu.vela.data_type import DataType
    from ethosu.vela.operation import Op, Operation, Kernel
    from ethosu.vela.shape4d import Shape4D
    from ethosu.vela.tensor import Tensor, QuantizationParameters, create_const_tensor

    shared = shared if shared is not None else {}
    w, wscale, bias = expand(case)
    acc = hw.ACCELS[case["accel"]]
    arch = create_default_arch(getattr(Accelerator, acc["enum"]))
    D = {"int8": DataType.int8, "uint8": DataType.uint8, "int16": DataType.int16}[case["ifm_dtype"]]
    optype = {"conv": Op.Conv2DBias, "depthwise": Op.DepthwiseConv2DBias, "fc": Op.FullyConnected, "tconv": Op.Conv2DBackpropInputSwitchedBias}[case["op"]]
    if case.get("conv_as_fc"):
        # a 1x1 CONV_2D on a 1x1 plane, as convert_conv_to_fc leaves it: the type becomes FullyConnected, the original type (and with it the reference kernel
        # whose scale derivation applies) stays CONV_2D
        op = Operation(Op.Conv2DBias, "op%s_fc" % case.get("name", ""))
        op.type = Op.FullyConnected
    else:
        op = Operation(optype, "op%s" % case.get("name", ""))

    def quant(s, z):
        q = QuantizationParameters()
        q.scale_f32 = s
        q.zero_point = z
        return q

    ic = case["ic"] if case["op"] != "depthwise" else case["oc"]
    ifm = Tensor([1, 8, 8, ic] if case["op"] != "fc" else [1, ic], D, "ifm")
    ifm.quantization = quant(np.float32(case["ifm_scale"]), np.int64(0 if case["ifm_dtype"] == "int16" else 3))
    ofm = Tensor([1, 8, 8, case["oc"]] if case["op"] != "fc" else [1, case["oc"]], D, "ofm")
    ofm.quantization = quant(np.float32(case["ofm_scale"]), np.int64(0 if case["ifm_dtype"] == "int16" else -5 if case["ifm_dtype"] == "int8" else 7))
    wkey = ("w", case.get("wkey", id(case)))
    if wkey in shared:
        wt = shared[wkey].clone("_r%s" % case.get("name", ""))  # the reader gives every operator its own clone (same value_id)
    else:
        wzp = np.zeros(case["oc"], np.int64) if case["per_channel"] else np.int64(case["wzp"] if case["ifm_dtype"] == "uint8" else 0)
        wt = create_const_tensor("weights", list(w.shape), DataType.uint8 if w.dtype == np.uint8 else DataType.int8, w, quantization=quant(wscale, wzp))
        shared[wkey] = wt
    bkey = ("b", case.get("bkey", id(case)))
    if bkey in shared:
        bt = shared[bkey].clone("_r%s" % case.get("name", ""), set_unique=True)
    else:
        bt = create_const_tensor("bias", [case["oc"]], DataType.int64 if case["bias64"] else DataType.int32, bias, quantization=quant(np.float32(1.0), np.int64(0)))
        from ethosu.vela.tensor import TensorPurpose, TensorFormat

        bt.format = TensorFormat.NHWC
        bt.purpose = TensorPurpose.FeatureMap  # as mark_tensors leaves bias tensors
        wt.purpose = TensorPurpose.Weights
        shared[bkey] = bt
    op.add_input_tensor(ifm)
    op.add_input_tensor(wt)
    if case["op"] == "tconv":  # operand layout of Conv2DBackpropInputSwitchedBias: ifm, weights, output shape, bias
        op.add_input_tensor(create_const_tensor("oshape", [4], DataType.int32, np.array([1, 8, 8, case["oc"]], np.int32)))
    op.add_input_tensor(bt)
    op.set_output_tensor(ofm)
    dil = tuple(case["dilation"])
    kernel = Kernel(case["kw"] if case["op"] != "fc" else 1, case["kh"] if case["op"] != "fc" else 1, 1, 1, dil[0], dil[1])
    bc = ArchitectureBlockConfig()
    bc.ofm_block = Shape4D(1, 2, 2, case["block_depth"])
    bc.ifm_block = Shape4D(1, 2, 2, 32)
    return dict(arch=arch, op=op, weight_tens=wt, scale_tens=bt, kernel=kernel, block_config=bc, depth_offsets=list(case["depth_offsets"]))


def summarise(wt, st):
    """picklable summary of the returned tensors"""
    def one(t):
        if t is None:
            return None
        return dict(buffer=bytes(t.buffer), ranges=[(int(k.core), int(k.depth), int(r.offset), int(r.scale_bytes), int(r.weight_offset), int(r.weight_bytes), int(r.index))
                                                    for k, r in t.encoded_ranges.items()],
                    dbl=[int(x) for x in t.double_buffer_sizes], trav=t.hw_traversal.name, shape=list(t.shape))

    return dict(weights=one(wt), scales=one(st))


def encode(case, shared=None):
    from ethosu.vela import weight_compressor

    kw = build(case, shared)
    wt, st = weight_compressor.encode_weight_and_scale_tensor(kw["arch"], kw["op"], kw["weight_tens"], kw["scale_tens"], kw["kernel"], kw["block_config"], kw["depth_offsets"])
    return summarise(wt, st)


def _fresh(case):
    return encode(case, {})


def expected_scales(case, wscale):
    import numpy as np

    ifs, ofs = np.float32(case["ifm_scale"]), np.float32(case["ofm_scale"])
    ws = list(wscale) if hasattr(wscale, "__iter__") else [wscale]
    out = []
    for s in ws:
        s = np.float32(s)
        if case["ifm_dtype"] == "uint8" or (case["op"] == "fc" and not case.get("conv_as_fc")):
            d = float(np.float32(ifs * s)) / float(ofs)
        else:
            d = float(ifs) * float(s) / float(ofs)
        m, e = tflref.quantize_multiplier(d)
        if case["ifm_dtype"] == "int16" and case["bias64"]:
            rm = ((m + (1 << 15)) >> 16) if m < 0x7FFF0000 else 0x7FFF
            out.append((rm, (31 - e) - 16))
        else:
            out.append((m, 31 - e))
    if len(out) == 1:
        out = out * case["oc"]
    return out


def check_encoded(case, summ, rec=None):
    """parse the returned buffer(s) and compare with the reference"""
    import numpy as np

    w, wscale, bias = expand(case)
    acc = hw.ACCELS[case["accel"]]
    ncores = acc["cores"]
    oc = case["oc"]
    offs = case["depth_offsets"]
    wsum, ssum = summ["weights"], summ["scales"]
    if wsum is None:
        raise Violation("C08/no-weights", "no weight tensor returned", case)
    src = wsum if ssum is None else None  # fresh request: one tensor holds scales+weights
    if src is None:
        raise Violation("C08/unexpected-split", "a fresh request returned a separate scale tensor", case)
    buf = src["buffer"]
    ranges = {(c, d): (o, sb, wo, wb, idx) for (c, d, o, sb, wo, wb, idx) in src["ranges"]}
    if src["shape"] != [1, 1, 1, len(buf)]:
        raise Violation("C08/shape", "tensor shape %s but buffer has %d bytes" % (src["shape"], len(buf)), case)
    # zero-point corrected weights in OHWI, as the hardware must see them
    if case["per_channel"] or case["ifm_dtype"] != "uint8":
        wz = w.astype(np.int64)
    else:
        wz = w.astype(np.int64) - case["wzp"]
    if wz.ndim == 2:
        wz = wz[None, None, :, :]
    if case["op"] == "tconv":
        wz = np.flip(wz, axis=(0, 1))
    ohwi = np.transpose(wz, (3, 0, 1, 2))
    exp_scales = expected_scales(case, wscale)
    partkernel = src["trav"] == "PART_KERNEL_FIRST"
    depthwise = case["op"] == "depthwise"
    if depthwise and partkernel:
        raise Violation("C08/traversal", "depthwise weights marked part-kernel-first", case)
    ifm_bits = 16 if case["ifm_dtype"] == "int16" else 8
    dil = case["dilation"]
    pos = 0
    expected_keys = []
    dbl = [0, 0]
    for idx in range(len(offs) - 1):
        d0, d1 = offs[idx], offs[idx + 1]
        slice_start = pos
        for core in range(min(ncores, oc)):
            cbd = (case["block_depth"] + ncores - 1 - core) // ncores
            if cbd == 0:
                continue
            key = (core, d0)
            expected_keys.append(key)
            if key not in ranges:
                raise Violation("C08/range-missing", "no encoded range for core %d depth offset %d (ranges: %s)" % (core, d0, sorted(ranges)), case)
            o, sb, wo, wb, ridx = ranges[key]
            if o % 16 or o != pos:
                raise Violation("C08/range-offset", "range (core %d, depth %d) starts at %d, expected %d (16-byte aligned, stream order, no gaps)" % (core, d0, o, pos), case)
            if ridx != len(expected_keys) - 1:
                raise Violation("C08/range-index", "range (core %d, depth %d) has index %d, expected %d" % (core, d0, ridx, len(expected_keys) - 1), case)
            chans = list(range(d0 + core, d1, ncores))
            if not chans:  # a core without channels in this slice gets an empty range
                if sb or wb:
                    raise Violation("C08/empty-core", "core %d owns no channel of slice [%d,%d) but its range has %d+%d bytes" % (core, d0, d1, sb, wb), case)
                continue
            if sb != 10 * len(chans):
                raise Violation("C08/scale-count", "range (core %d, depth %d): %d scale bytes for %d channels" % (core, d0, sb, len(chans)), case)
            for j, ch in enumerate(chans):
                r = buf[o + 10 * j: o + 10 * j + 10]
                b = int.from_bytes(r[0:5], "little", signed=True)
                sc = int.from_bytes(r[5:9], "little")
                sh = r[9]
                if sh & 0xC0:
                    raise Violation("C08/scale-record", "shift byte 0x%02x has the two reserved bits set" % sh, case)
                if b != int(bias[ch]):
                    raise Violation("C08/bias", "channel %d (core %d, slice %d): bias record %d, expected %d" % (ch, core, idx, b, int(bias[ch])), case)
                if (sc, sh) != exp_scales[ch]:
                    raise Violation("C08/scale", "channel %d: scale record (%d, %d), reference (%d, %d)" % (ch, sc, sh, exp_scales[ch][0], exp_scales[ch][1]), case)
            if wo % 16 or wo != -(-sb // 16) * 16:
                raise Violation("C08/weight-offset", "weight section offset %d after %d scale bytes" % (wo, sb), case)
            if any(buf[o + sb: o + wo]):
                raise Violation("C08/pad", "non-zero bytes between scale records and weight stream", case)
            stream = buf[o + wo: o + wo + wb]
            if wb % 16 or len(stream) != wb or wb == 0:
                raise Violation("C08/weight-bytes", "weight section of %d bytes (buffer %d)" % (wb, len(buf)), case)
            try:
                flat = extbuild.ref_decoder()(bytes(stream))
            except ValueError as e:
                raise Violation("C08/undecodable", str(e), case)
            vol, problem = wref.inverse_traversal(flat, (len(chans), ohwi.shape[1], ohwi.shape[2], ohwi.shape[3]), cbd, depthwise, partkernel, ifm_bits,
                                                  acc["ifm_ub"][2], acc["ofm_ub"][2], 8 // dil[1], 8 // dil[0])
            if problem:
                raise Violation("C08/weights-traversal", "range (core %d, depth %d): %s" % (core, d0, problem), case)
            if not np.array_equal(vol, ohwi[chans]):
                bad = np.argwhere(vol != ohwi[chans])[0].tolist()
                raise Violation("C08/weights", "range (core %d, depth %d) channels %s..: decoded weights differ from the source at (o,h,w,i)=%s" % (core, d0, chans[:3], bad), case)
            pos = o + wo + wb
        dbl[idx % 2] = max(dbl[idx % 2], pos - slice_start)
    if set(ranges) != set(expected_keys):
        raise Violation("C08/range-extra", "unexpected ranges %s" % sorted(set(ranges) - set(expected_keys)), case)
    if pos != len(buf):
        raise Violation("C08/coverage", "ranges cover %d of %d buffer bytes" % (pos, len(buf)), case)
    for p in (0, 1):
        if src["dbl"][p] < dbl[p]:
            raise Violation("C08/double-buffer", "double_buffer_sizes[%d]=%d but a slice of that parity needs %d bytes" % (p, src["dbl"][p], dbl[p]), case)
    if rec is not None:
        rec.cls(case["op"], case["ifm_dtype"], case["accel"], src["trav"])
        if len(offs) > 2 or ncores > 1:
            rec.nontriv([case[k] for k in sorted(case)], sample=case)


def oracle_single(case, rec=None):
    res = forkcall.forkcall(_fresh, case, 300)
    if res[0] == "exc":
        if res[3] is None:
            raise RuntimeError("harness error building request: %s" % res[4])
        raise Violation("C08/exception/%s@%s" % (res[1], res[3]), "%s: %s" % (res[1], res[2]), case)
    if res[0] != "ok":
        raise Violation("C08/process-%s" % res[0], "encoder child %s" % (res,), case)
    check_encoded(case, res[1], rec)


def request_strategy(name=""):
    from hypothesis import strategies as st

    @st.composite
    def req(draw):
        op = draw(st.sampled_from(OPS))
        ifm_dtype = draw(st.sampled_from(["int8", "int8", "uint8", "int16"]))
        oc = draw(st.one_of(st.integers(1, 20), st.integers(1, 80), st.sampled_from([1, 15, 16, 17, 31, 32, 33, 48, 64])))
        ic = draw(st.one_of(st.integers(1, 12), st.integers(1, 40), st.sampled_from([1, 8, 9, 16, 17, 32, 33])))
        kh, kw = (1, 1) if op == "fc" else (draw(st.integers(1, 6)), draw(st.integers(1, 6)))
        if kh * kw * ic * oc > 30000:
            ic = max(1, 30000 // (kh * kw * oc))
        # depth slices: 0 .. oc with intermediate multiples of 16
        cuts = sorted(set(draw(st.lists(st.integers(1, max(1, (oc - 1) // 16)), max_size=3)))) if oc > 16 else []
        offs = [0] + [16 * c for c in cuts if 16 * c < oc] + [oc]
        conv_as_fc = op == "fc" and draw(st.integers(0, 2)) == 0
        return dict(kind="single", name=name, op=op, conv_as_fc=conv_as_fc, ifm_dtype=ifm_dtype, oc=oc, ic=ic, kh=kh, kw=kw, seed=draw(st.integers(0, 1 << 30)),
                    wdist=draw(st.sampled_from(["wide", "sparse", "index"])), per_channel=(ifm_dtype != "uint8" and (op != "fc" or conv_as_fc) and draw(st.booleans())),
                    wzp=draw(st.integers(0, 255)), bias64=(ifm_dtype == "int16" and draw(st.booleans())),
                    ifm_scale=draw(st.sampled_from([0.05, 0.0078125, 0.1234, 1.0])), ofm_scale=draw(st.sampled_from([0.05, 0.11, 0.5, 2.0])),
                    dilation=[1, 1] if op in ("fc", "tconv") else [draw(st.sampled_from([1, 1, 2])), draw(st.sampled_from([1, 1, 2]))],
                    block_depth=8 * draw(st.integers(1, 12)), accel=draw(st.sampled_from(hw.ACCEL_NAMES)), depth_offsets=offs)

    return req()


def singles(ctx, arg, rec):
    shard, n = arg
    run_hypothesis(rec, request_strategy(), oracle_single, n, sub_seed(ctx.seed, PROPERTY, "single", shard))


# ----------------------------------------------------------------------------------------------------------
def history_strategy():
    from hypothesis import strategies as st

    @st.composite
    def hist(draw):
        base = draw(request_strategy())
        base["wkey"], base["bkey"] = 0, 0
        if draw(st.booleans()) and base["op"] != "fc":  # deep enough for several depth slices
            base["oc"] = draw(st.sampled_from([40, 48, 64, 65, 80, 96, 128]))
            base["ic"] = min(base["ic"], 8)
            base["depth_offsets"] = [0] + [16 * c for c in sorted(set(draw(st.lists(st.integers(1, (base["oc"] - 1) // 16), max_size=3))))] + [base["oc"]]
        reqs = [base]
        n = draw(st.integers(1, 5))
        for i in range(n):
            r = dict(draw(st.sampled_from(reqs)))
            r["name"] = str(i + 1)
            mut = draw(st.sampled_from(["same", "offsets", "offsets", "block_depth", "ifm_dtype", "optype", "dilation", "bias", "scales", "newweights"]))
            if mut == "offsets" and r["oc"] > 16:
                how = draw(st.sampled_from(["random", "keep-first", "split", "merge"]))
                offs = list(r["depth_offsets"])
                allc = list(range(16, r["oc"], 16))
                if how == "keep-first" and len(offs) > 2:
                    rest = [c for c in allc if c > offs[1]]
                    offs = [0, offs[1]] + sorted(set(draw(st.lists(st.sampled_from(rest), max_size=3)))) + [r["oc"]] if rest else offs
                elif how == "split":
                    cand = [c for c in allc if c not in offs]
                    if cand:
                        offs = sorted(set(offs + [draw(st.sampled_from(cand))]))
                elif how == "merge" and len(offs) > 2:
                    offs.pop(draw(st.integers(1, len(offs) - 2)))
                else:
                    cuts = sorted(set(draw(st.lists(st.integers(1, (r["oc"] - 1) // 16), max_size=3))))
                    offs = [0] + [16 * c for c in cuts if 16 * c < r["oc"]] + [r["oc"]]
                r["depth_offsets"] = offs
            elif mut == "block_depth":
                r["block_depth"] = 8 * draw(st.integers(1, 12))
            elif mut == "ifm_dtype" and r["ifm_dtype"] in ("int8", "int16") and not r["bias64"]:
                r["ifm_dtype"] = "int16" if r["ifm_dtype"] == "int8" else "int8"
                r["bkey"] = 100 + i  # a bias tensor may only be shared by operators with identical scaling (asserted by the repository)
            elif mut == "optype" and r["op"] in ("conv", "tconv") and r["dilation"] == [1, 1]:
                r["op"] = "tconv" if r["op"] == "conv" else "conv"
            elif mut == "dilation" and r["op"] in ("conv", "depthwise"):
                r["dilation"] = [draw(st.sampled_from([1, 2])), draw(st.sampled_from([1, 2]))]
            elif mut == "bias":
                r["bkey"] = i + 1  # another bias tensor (new value id) with the same weights
            elif mut == "scales":
                r["ofm_scale"] = draw(st.sampled_from([0.05, 0.11, 0.5, 2.0]))
                r["bkey"] = 100 + i
            elif mut == "newweights":
                r["wkey"], r["bkey"], r["seed"] = i + 1, i + 1, r["seed"] + 1 + i
            r["mut"] = mut
            reqs.append(r)
        return dict(kind="history", requests=reqs)

    return hist()


def _run_history(case):
    shared = {}
    out = []
    for r in case["requests"]:
        # tensors are keyed by (wkey, shape-defining fields) so that a shared key really means the same Tensor object
        rr = dict(r)
        rr["wkey"] = (r["wkey"], r["op"] == "fc", r["op"] == "depthwise", r["oc"], r["ic"], r["kh"], r["kw"], r["seed"], r["wdist"], r["per_channel"], r["wzp"], r["ifm_dtype"] == "uint8")
        rr["bkey"] = (r["bkey"], r["oc"], r["seed"], r["bias64"])
        out.append(encode(rr, shared))
    return out


def oracle_history(case, rec=None):
    res = forkcall.forkcall(_run_history, case, 600)
    if res[0] == "exc":
        if res[3] is None:
            raise RuntimeError("harness error in history: %s" % res[4])
        raise Violation("C08/history/exception/%s@%s" % (res[1], res[3]), "%s: %s" % (res[1], res[2]), case)
    if res[0] != "ok":
        raise Violation("C08/history/process-%s" % res[0], str(res), case)
    shared_hit = False
    seen = set()
    for i, (r, got) in enumerate(zip(case["requests"], res[1])):
        fr = forkcall.forkcall(_fresh, r, 300)
        if fr[0] != "ok":
            raise Violation("C08/history/fresh-failed", "fresh encoding of request %d failed: %s" % (i, fr[:3]), case)
        fresh = fr[1]
        # what the operation will read: weights from got['weights'], scales from got['scales'] if present else from weights tensor
        gw, gs = got["weights"], got["scales"]
        fw = fresh["weights"]
        fresh_ranges = {(c, d): (o, sb, wo, wb) for (c, d, o, sb, wo, wb, idx) in fw["ranges"]}
        got_w_ranges = {(c, d): (o, sb, wo, wb) for (c, d, o, sb, wo, wb, idx) in gw["ranges"]}
        got_s_ranges = {(c, d): (o, sb, wo, wb) for (c, d, o, sb, wo, wb, idx) in (gs or gw)["ranges"]}
        if set(got_w_ranges) != set(fresh_ranges) or set(got_s_ranges) != set(fresh_ranges):
            raise Violation("C08/history/ranges", "request %d (%s): reused tensor has ranges %s, a fresh encoding %s" % (i, r.get("mut"), sorted(got_w_ranges), sorted(fresh_ranges)), case)
        for key, (o, sb, wo, wb) in fresh_ranges.items():
            go, gsb, gwo, gwb = got_w_ranges[key]
            if gw["buffer"][go + gwo: go + gwo + gwb] != fw["buffer"][o + wo: o + wo + wb]:
                raise Violation("C08/history/weights", "request %d (%s): weight stream of range %s differs from a fresh encoding" % (i, r.get("mut"), key), case)
            so, ssb, _, _ = got_s_ranges[key]
            if (gs or gw)["buffer"][so: so + ssb] != fw["buffer"][o: o + sb]:
                raise Violation("C08/history/scales", "request %d (%s): scale records of range %s differ from a fresh encoding" % (i, r.get("mut"), key), case)
        if gw["trav"] != fw["trav"]:
            raise Violation("C08/history/traversal", "request %d (%s): reused tensor says %s, fresh encoding %s" % (i, r.get("mut"), gw["trav"], fw["trav"]), case)
        for p in (0, 1):
            if gw["dbl"][p] < fw["dbl"][p] and gs is None:
                raise Violation("C08/history/double-buffer", "request %d: double buffer size %s < fresh %s" % (i, gw["dbl"], fw["dbl"]), case)
        if r["wkey"] in seen:
            shared_hit = True
        seen.add(r["wkey"])
    if rec is not None:
        rec.cls("history-len%d" % len(case["requests"]), *["mut-" + r.get("mut", "base") for r in case["requests"]])
        if shared_hit:
            rec.nontriv([[r[k] for k in sorted(r)] for r in case["requests"]], sample=dict(kind="history", muts=[r.get("mut", "base") for r in case["requests"]], first=case["requests"][0]))


def histories(ctx, arg, rec):
    shard, n = arg
    run_hypothesis(rec, history_strategy(), oracle_history, n, sub_seed(ctx.seed, PROPERTY, "hist", shard))


# ---- artefacts: the ranges the emitted operations are given ----------------------------------------------------------
def artefact_case(case, rec=None):
    """compiled networks (convolutions that share weight tensors, several cores / depth slices): every kernel operation's weight and scale ranges - as programmed in the stream,
    i.e. after create_weights picked them from encoded_ranges - must hold one record per channel of that (core, slice) with the channel's own bias and scale and the weights of
    exactly those channels.  The decoding is C09's artefact oracle (scale records) and the simulator's weight decoder; failures are reported under C08."""
    from props import c09

    try:
        c09.artefact_case(case, rec)
    except Violation as v:
        if v.key.startswith("C09/"):
            raise Violation("C08/artefact/" + v.key.split("/", 2)[2], v.message, case)
        raise


def artefacts(ctx, arg, rec):
    import e2e
    from hypothesis import strategies as st

    shard, n = arg
    base = e2e.case_strategy("convs", max_ops=2, big=False, dtypes=("int8", "int8", "uint8", "int16"))

    def bias(c):
        # two-core accelerator or a small arena cache (depth slices) half of the time: more than one (core, slice) range per operation
        c = dict(c, cfg=dict(c["cfg"]))
        if shard % 2 == 0:
            c["cfg"]["accel"] = "ethos-u65-512"
        else:
            c["cfg"]["arena_cache_size"] = 4096
        return c

    run_hypothesis(rec, base.map(bias), artefact_case, n, sub_seed(ctx.seed, PROPERTY, "artefact", shard))


def parts(ctx):
    q = ctx.quick
    return [Part("single%02d" % i, singles, (i, 60 if q else 4000)) for i in range(10)] + [Part("hist%02d" % i, histories, (i, 30 if q else 900)) for i in range(6)] + [
        Part("artefact%02d" % i, artefacts, (i, 25 if q else 600)) for i in range(4)]


def replay(ctx, case):
    if "spec" in case:
        artefact_case(case, None)
    elif case.get("kind") == "history":
        oracle_history(case, None)
    else:
        oracle_single(case, None)

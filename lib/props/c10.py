"""C10 - splitting an operator into stripes does not change what it computes.

Part A (this file): stripe geometry at unit level - padding/skirt from Vela's own calc_padding_and_skirt, IFM boxes and
per-stripe pads from Box.transform_with_strides_and_skirt + create_padding, rolling buffers from
CascadeBuilder.rolling_buffer_shape - against independent receptive-field arithmetic.
Part B (e2e_parts): every stripe sequence in the streams of generated compiled networks.
"""
import itertools
import types

from runner import Part, Violation, sub_seed, run_hypothesis, sut
import velaenv

PROPERTY = "C10"
RULE = (
    "part A: (IFM height H, kernel height k, stride s, dilation d, padding SAME / VALID / explicit (top,bottom) from a fused PAD, operator kind conv / depthwise / "
    "pool, stripe height) - exhaustive for H<=8 (quick) / H<=14 (thorough), k<=5, s<=3, d<=2, every stripe height, random beyond (H<=200, k<=8); for every "
    "stripe the IFM start row, the rows the hardware derives from (OFM rows, kernel, stride, pads) and the four pads are compared with the receptive field of "
    "the stripe's output rows clipped to the input. part B: stripe sequences, read/write offsets, up-scaling and rolling buffers in compiled networks. "
    "non-trivial = >=2 stripes and dilated kernel height > stride (overlapping receptive fields) or a stripe needing padding; distinct = geometry tuple."
)
ASSUMPTIONS = [
    "hardware semantics (H2): for a stripe with n OFM rows the NPU reads E = (n-1)*stride + dilated_kernel - pad_top - pad_bottom rows starting at the IFM "
    "address it is given, treating pad_top rows above and pad_bottom rows below as zero points",
    "the IFM box computed by Vela must be exactly the rows the hardware reads: fewer breaks the addresses, more makes cascaded producers run ahead of unread rolling-buffer rows",
    "read/write offsets and up-scaling are decided on compiled networks (part B), where the shapes Vela passes are unambiguous",
]


def _mods():
    velaenv.init()
    from ethosu.vela import high_level_command_stream as hl
    from ethosu.vela import high_level_command_to_npu_op as h2n
    from ethosu.vela import tflite_graph_optimiser as go
    from ethosu.vela.operation import Kernel, NpuBlockType, Op, Operation, Padding
    from ethosu.vela.shape4d import Shape4D

    return hl, h2n, go, Kernel, NpuBlockType, Op, Operation, Padding, Shape4D


def out_height(H, dk, s, ptype, top, bottom):
    if ptype == "SAME":
        return -(-H // s)
    if ptype == "VALID":
        return (H - dk) // s + 1
    return (H + top + bottom - dk) // s + 1


def fusable(top, stride, dk):
    """precondition under which the graph optimiser replaces PAD + VALID by explicit hardware padding (pads <= dk//2 and the leading-pad rule)"""
    m = dk // 2
    return top == m or m <= stride or top % stride == 0


def check_geometry(case, rec=None):
    hl, h2n, go, Kernel, NpuBlockType, Op, Operation, Padding, Shape4D = _mods()
    H, W, k, s, d, ptype, step, kind = case["H"], case["W"], case["k"], case["s"], case["d"], case["ptype"], case["step"], case["kind"]
    top, bottom = case.get("top", 0), case.get("bottom", 0)
    dk = d * (k - 1) + 1
    oh = out_height(H, dk, s, ptype, top, bottom)
    if oh < 1:
        return None
    kw = case.get("kw", k)
    dkw = d * (kw - 1) + 1
    ow = out_height(W, dkw, 1, "SAME", 0, 0)
    kernel = Kernel(kw, k, 1, s, d, d)
    pad_enum = {"SAME": Padding.SAME, "VALID": Padding.VALID, "EXPLICIT": Padding.EXPLICIT}[ptype]
    ifm_shape = Shape4D(1, H, W, 8)
    padding, skirt = sut("C10/calc_padding_and_skirt", case, go.calc_padding_and_skirt, pad_enum, kernel, ifm_shape, (top, 0, bottom, 0))
    P_top, P_left, P_bottom, P_right = [int(x) for x in padding]
    btype = {"conv": NpuBlockType.ConvolutionMxN, "depthwise": NpuBlockType.ConvolutionDepthWise, "pool": NpuBlockType.Pooling}[kind]
    optype = {"conv": Op.Conv2DBias, "depthwise": Op.DepthwiseConv2DBias, "pool": Op.MaxPool}[kind]
    primary = Operation(optype, "op")
    primary.attrs["explicit_padding"] = tuple(padding)
    primary.attrs["padding"] = pad_enum
    # The operator's own ("original") padding is given, not judged here: C10 is about stripes.  Geometries whose original bottom padding is not the
    # overhang of the last output row (possible for fused PAD with kernel < stride) are counted and left to C01.
    full_r1 = (oh - 1) * s - P_top + dk
    if P_bottom != max(0, full_r1 - H):
        if rec is not None:
            rec.cls("original-padding-not-receptive-field(skipped)")
        return None
    strides = [1, s, 1, 1]
    nstripes = 0
    overl = False
    padded = False
    for y0 in range(0, oh, step):
        y1 = min(y0 + step, oh)
        nstripes += 1
        ofm_box = hl.Box([0, y0, 0, 0], [1, y1, ow, 8])
        ifm_box, pad_top, pad_bottom = sut("C10/transform", case, ofm_box.transform_with_strides_and_skirt, strides, list(skirt), ifm_shape, btype, [0, 0, 0, 0], dk, None, None, 1, optype)
        first, last = y0 == 0, y1 >= oh
        cmd = types.SimpleNamespace(is_first_h_stripe=first, is_last_h_stripe=last, pad_top=pad_top, pad_bottom=pad_bottom, ifm_box=ifm_box,
                                    ps=types.SimpleNamespace(ifm_shapes=[ifm_shape]), ifm_tensor=None)
        npad = sut("C10/create_padding", case, h2n.create_padding, cmd, primary, None)
        pt, pl, pb, pr = int(npad.top), int(npad.left), int(npad.bottom), int(npad.right)
        a = int(ifm_box.start_coord[-3])
        b = int(ifm_box.end_coord[-3])
        n = y1 - y0
        r0 = y0 * s - P_top
        r1 = (y1 - 1) * s - P_top + dk
        where = "H=%d k=%d s=%d d=%d %s(%d,%d) %s, stripe rows [%d,%d) of %d" % (H, k, s, d, ptype, top, bottom, kind, y0, y1, oh)
        if pt < 0 or pb < 0 or pt >= max(dk, 1) + 0 and pt > dk or pb > dk:
            raise Violation("C10/stripe/pad-range", "%s: pads top %d bottom %d" % (where, pt, pb), case)
        if a != max(r0, 0) or pt != max(0, -r0):
            raise Violation("C10/stripe/top", "%s: IFM starts at row %d with top pad %d; the receptive field starts at row %d (needs start %d, pad %d)" % (
                where, a, pt, r0, max(r0, 0), max(0, -r0)), case)
        E = (n - 1) * s + dk - pt - pb
        if a + E != min(r1, H) or pb != max(0, r1 - H):
            needed_total = max(dk - (H % s or s), 0)
            bucket = "explicit-pad-exceeds-skirt" if (ptype == "EXPLICIT" and top + bottom > needed_total) else "general"
            raise Violation("C10/stripe/bottom/%s" % bucket, "%s: bottom pad %d makes the hardware read rows [%d,%d); the receptive field ends at row %d of %d (needs pad %d)" % (
                where, pb, a, a + E, r1, H, max(0, r1 - H)), case)
        if b < a + E or b > H:
            raise Violation("C10/stripe/box", "%s: IFM box rows [%d,%d) do not cover the rows the hardware reads [%d,%d) inside the %d-row input" % (where, a, b, a, a + E, H), case)
        if b > max(a + E, a + 1):
            # the box end is what a cascaded consumer waits for: rows beyond the last one read make the producer run ahead and overwrite unread rows of the rolling buffer
            raise Violation("C10/stripe/box-exceeds-read", "%s: IFM box rows [%d,%d) extend beyond the rows the hardware reads [%d,%d)" % (where, a, b, a, a + E), case)
        if (pl, pr) != (P_left, P_right):
            raise Violation("C10/stripe/left-right", "%s: left/right pads (%d,%d) differ from the operator's (%d,%d) although the stripe spans the full width" % (
                where, pl, pr, P_left, P_right), case)
        if pt or pb:
            padded = True
    if nstripes >= 2 and dk > s:
        overl = True
    if rec is not None:
        rec.cls(kind, ptype, "stripes>=2" if nstripes >= 2 else "single-stripe")
    return nstripes >= 2 and (overl or padded)


def exhaustive(ctx, arg, rec):
    shard, nshards, Hmax = arg
    i = 0
    nt = 0
    n = 0
    for H in range(1, Hmax + 1):
        for k, s, d in itertools.product(range(1, 6), range(1, 4), (1, 2)):
            dk = d * (k - 1) + 1
            pads = [("SAME", 0, 0), ("VALID", 0, 0)] + [("EXPLICIT", t, b) for t in range(0, dk // 2 + 1) for b in range(0, dk // 2 + 1) if (t or b) and fusable(t, s, dk)]
            for ptype, t, b in pads:
                oh = out_height(H, dk, s, ptype, t, b)
                if oh < 1:
                    continue
                for step in range(1, oh + 1):
                    i += 1
                    if i % nshards != shard:
                        continue
                    for kind in ("conv", "pool"):
                        case = dict(kind=kind, H=H, W=6, k=k, s=s, d=d if kind != "pool" else 1, ptype=ptype, top=t, bottom=b, step=step)
                        n += 1
                        try:
                            if rec.check(lambda c: check_geometry(c, rec), case):
                                nt += 1
                                if len(rec.samples) < 3:
                                    rec.samples.append(case)
                        except Violation as v:
                            rec.violation(v)
                            return
    rec.case(n)
    for j in range(nt // 256 + 1):
        rec.nontrivial.add("exh:%d:%d" % (shard, j))
    rec.notes.append("exhaustive shard %d: %d geometries x stripe heights, %d non-trivial (counted in blocks of 256)" % (shard, n, nt))
    rec.exhaustive = True


def oracle_random(case, rec=None):
    nt = check_geometry(case, rec)
    if rec is not None and nt:
        rec.nontriv(case, sample=case)


def randoms(ctx, arg, rec):
    from hypothesis import strategies as st

    shard, n = arg

    @st.composite
    def case(draw):
        k = draw(st.integers(1, 8))
        d = draw(st.sampled_from([1, 1, 2]))
        dk = d * (k - 1) + 1
        s = draw(st.integers(1, 3))
        H = draw(st.one_of(st.integers(1, 40), st.integers(1, 200)))
        ptype = draw(st.sampled_from(["SAME", "VALID", "EXPLICIT"]))
        t, b = (draw(st.integers(0, dk // 2)), draw(st.integers(0, dk // 2))) if ptype == "EXPLICIT" else (0, 0)
        if ptype == "EXPLICIT" and not fusable(t, s, dk):
            t = dk // 2
        oh = out_height(H, dk, s, ptype, t, b)
        step = draw(st.integers(1, max(1, oh)))
        return dict(kind=draw(st.sampled_from(["conv", "depthwise", "pool"])), H=H, W=draw(st.integers(1, 20)), k=k, kw=draw(st.integers(1, 8)), s=s, d=d, ptype=ptype, top=t, bottom=b, step=step)

    run_hypothesis(rec, case(), oracle_random, n, sub_seed(ctx.seed, PROPERTY, "rand", shard), shrink=True)


def parts(ctx):
    q = ctx.quick
    ps = [Part("exh%02d" % i, exhaustive, (i, 8, 8 if q else 14)) for i in range(8)]
    ps += [Part("rand%02d" % i, randoms, (i, 300 if q else 20000)) for i in range(8)]
    try:
        import props.e2e_parts as e2e

        ps += e2e.parts_for(ctx, PROPERTY)
    except ImportError:
        pass
    return ps


def replay(ctx, case):
    if "spec" in case:
        import props.e2e_parts as e2e

        return e2e.replay(ctx, PROPERTY, case)
    check_geometry(case, None)

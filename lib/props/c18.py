"""C18 - system configuration and memory mode resolve as documented (OPTIONS.md)."""
import io
import os
import re
import shutil
import tempfile

from runner import Part, Violation, sub_seed, run_hypothesis, HarnessError
import forkcall
import hw
import velaenv

PROPERTY = "C18"
RULE = (
    "generated .ini files (1-2 files, 1-5 System_Config.* and Memory_Mode.* sections, inheritance chains to depth 4 incl. across files, self-inheritance, "
    "missing parents, option subsets, every port<->memory mapping incl. illegal ones, sizes incl. negative and beyond the address space) x selection "
    "(existing, missing, internal-default) x arena cache size given/absent (incl. 0) x 6 accelerators: part A constructs ArchitectureFeatures directly, "
    "part B runs vela.main with --verbose-config on a tiny network and parses its output, with the config addressed as Arm/vela.ini, absolute, relative and "
    "./-prefixed paths from three working directories; part C: internal-default equals the sections of the bundled Arm/vela.ini that OPTIONS.md names. "
    "oracle: reference resolver written from OPTIONS.md. non-trivial = the selected section inherits an option that is overridden somewhere in its chain, or "
    "an error case, or a CLI case resolving a bundled/relative path; distinct = case hash."
)
ASSUMPTIONS = [
    "latency defaults are excluded: OPTIONS.md says '1 or the equivalent', the code uses 0, and the value only feeds the performance estimate",
    "the Sram-only rewrite (all three areas on the Sram port -> constants move to the other port which becomes OnChipFlash with Sram's characteristics) "
    "is modelled as implemented and as the 'Sram Only Mode' section describes its effect",
    "indirect inheritance cycles are not generated (the documentation only promises rejection of self-reference)",
    "when several --config files define the same section, ConfigParser's merge (later file wins per option) is taken as the documented .ini semantics",
    "maximum address = 2^32 (Ethos-U55) / 2^40 (Ethos-U65) (pinned hardware fact)",
    "vela without --config/--system-config/--memory-mode uses the NXP fork's i.MX93 system configuration (deliberate fork behaviour, any accelerator): "
    "for that path only the memory-mode attributes and the arena cache size are compared",
]

MEMS = ["Sram", "Dram", "OnChipFlash", "OffChipFlash"]
PORTS = ["Axi0", "Axi1"]


def max_addr(accel):
    return 1 << (40 if hw.ACCELS[accel]["product"] == 1 else 32)


# ----------------------------------------------------------------------------------------------------------
def merged_sections(files):
    """files: list of {section: {key: value}} in --config order -> merged dict (later file wins per option)"""
    out = {}
    for f in files:
        for sec, opts in f.items():
            out.setdefault(sec, {}).update(opts)
    return out


class Reject(Exception):
    pass


def ref_lookup(secs, section, key, default):
    if section not in secs:
        raise Reject("section %s not found" % section)
    val = default
    parent = secs[section].get("inherit")
    if parent is not None:
        if parent == section:
            raise Reject("self inheritance")
        val = ref_lookup(secs, parent, key, val)
    if key in secs[section]:
        val = secs[section][key]
    return val


LATENCY_DEFAULTS = (0, 1)


def reference(case):
    """-> dict of expected attributes, or raises Reject"""
    accel = case["accel"]
    secs = merged_sections(case["files"]) if case["files"] is not None else None
    sysname, memname = case["system_config"], case["memory_mode"]
    u65 = hw.ACCELS[accel]["product"] == 1
    MA = max_addr(accel)
    exp = {}
    ssec = "System_Config." + sysname
    if secs is not None and ssec in secs:
        exp["core_clock"] = float(ref_lookup(secs, ssec, "core_clock", 1))
        ports = {}
        for p in ("axi0_port", "axi1_port"):
            v = ref_lookup(secs, ssec, p, "Sram")
            if v not in MEMS:
                raise Reject("bad memory name")
            ports[p] = v
        exp.update(ports)
        exp["mem"] = {}
        for m in set(ports.values()):
            exp["mem"][m] = dict(clock_scale=float(ref_lookup(secs, ssec, m + "_clock_scale", 1)), burst_length=int(ref_lookup(secs, ssec, m + "_burst_length", 1)))
            # latencies: a value given anywhere in the chain is the value used; the default of an unspecified one is not pinned down by the documentation ("1 or the
            # equivalent" vs the code's 0): both readings are accepted (LATENCY_DEFAULTS) - but nothing else, in particular not the value of another option
            for d in ("read_latency", "write_latency"):
                v = ref_lookup(secs, ssec, m + "_" + d, None)
                exp["mem"][m][d] = int(v) if v is not None else LATENCY_DEFAULTS
    elif sysname == "internal-default":
        exp.update(core_clock=1e9 if u65 else 500e6, axi0_port="Sram", axi1_port="Dram" if u65 else "OffChipFlash")
        exp["mem"] = {"Sram": dict(clock_scale=1.0, burst_length=32), ("Dram" if u65 else "OffChipFlash"): dict(clock_scale=0.75 if u65 else 0.125, burst_length=128)}
    else:
        raise Reject("system config section missing")
    msec = "Memory_Mode." + memname
    size_from = "default"
    if secs is not None and msec in secs:
        areas = {}
        for a in ("const_mem_area", "arena_mem_area", "cache_mem_area"):
            v = ref_lookup(secs, msec, a, "Axi0")
            if v not in PORTS:
                raise Reject("bad port name")
            areas[a] = v
        size = ref_lookup(secs, msec, "arena_cache_size", None)
        if size is None:
            size = MA
        else:
            size = int(size)
            size_from = "file"
    elif memname == "internal-default":
        areas = dict(const_mem_area="Axi1", arena_mem_area="Axi1" if u65 else "Axi0", cache_mem_area="Axi0")
        size = 384 * 1024 if u65 else MA
    else:
        raise Reject("memory mode section missing")
    port_mem = {"Axi0": exp["axi0_port"], "Axi1": exp["axi1_port"]}
    # Sram only rewrite
    if port_mem[areas["const_mem_area"]] == "Sram" and areas["const_mem_area"] == areas["arena_mem_area"] == areas["cache_mem_area"]:
        other = "Axi1" if areas["const_mem_area"] == "Axi0" else "Axi0"
        areas["const_mem_area"] = other
        port_mem[other] = "OnChipFlash"
        exp["axi0_port" if other == "Axi0" else "axi1_port"] = "OnChipFlash"
        exp["mem"]["OnChipFlash"] = dict(exp["mem"]["Sram"])
    if case["cli_size"] is not None:
        size = case["cli_size"]
        size_from = "cli"
    if port_mem[areas["const_mem_area"]] not in ("Dram", "OnChipFlash", "OffChipFlash"):
        raise Reject("const area mapping")
    if port_mem[areas["arena_mem_area"]] not in ("Sram", "Dram"):
        raise Reject("arena area mapping")
    if port_mem[areas["cache_mem_area"]] != "Sram":
        raise Reject("cache area mapping")
    if size < 0 or size > MA:
        raise Reject("arena cache size out of range")
    exp.update(areas)
    exp.update(arena_cache_size=size, size_from=size_from, permanent_storage=port_mem[areas["const_mem_area"]], feature_map_storage=port_mem[areas["arena_mem_area"]],
               fast_storage=port_mem[areas["cache_mem_area"]],
               spilling=(port_mem[areas["cache_mem_area"]] == "Sram" and areas["cache_mem_area"] != areas["arena_mem_area"]))
    return exp


def write_files(case, d):
    paths = []
    for i, f in enumerate(case["files"] or []):
        p = os.path.join(d, "cfg%d.ini" % i)
        with open(p, "w") as fh:
            for sec, opts in f.items():
                fh.write("[%s]\n" % sec)
                for k, v in opts.items():
                    fh.write("%s=%s\n" % (k, v))
                fh.write("\n")
        paths.append(p)
    return paths


def observe_direct(case):
    """runs in a forked child: build ArchitectureFeatures, return attribute dict or ('reject', type)"""
    velaenv.init()
    from ethosu.vela.architecture_features import ArchitectureFeatures
    from ethosu.vela.errors import VelaError
    from ethosu.vela.tensor import MemArea

    d = tempfile.mkdtemp(prefix="c18-")
    try:
        paths = write_files(case, d) if case["files"] is not None else None
        try:
            a = ArchitectureFeatures(paths, case["accel"], case["system_config"], case["memory_mode"], 3, False, case["cli_size"])
        except VelaError as e:
            return ("reject", type(e).__name__, str(e)[:200])
        mem = {}
        for m in (a.axi0_port, a.axi1_port):
            from ethosu.vela.architecture_features import BandwidthDirection  # noqa

            mem[m.name] = dict(clock_scale=float(a.memory_clock_scales[m]), burst_length=int(a.memory_burst_length[m]),
                               read_latency=int(a.memory_latency[m][BandwidthDirection.Read]), write_latency=int(a.memory_latency[m][BandwidthDirection.Write]))
        return ("ok", dict(core_clock=float(a.core_clock), axi0_port=a.axi0_port.name, axi1_port=a.axi1_port.name, mem=mem, const_mem_area=a.const_mem_area.name,
                           arena_mem_area=a.arena_mem_area.name, cache_mem_area=a.cache_mem_area.name, arena_cache_size=int(a.arena_cache_size),
                           permanent_storage=a.permanent_storage_mem_area.name, feature_map_storage=a.feature_map_storage_mem_area.name,
                           fast_storage=a.fast_storage_mem_area.name, spilling=bool(a.is_spilling_enabled())))
    finally:
        shutil.rmtree(d, ignore_errors=True)


def compare(case, exp, got, where):
    for k, v in exp.items():
        if k == "size_from":
            continue
        if k == "mem":
            for m, vals in v.items():
                if m not in got["mem"]:
                    continue  # memory no longer on a port after the Sram-only rewrite
                for kk, vv in vals.items():
                    if kk not in got["mem"][m]:
                        continue  # (the command-line print-out is parsed for clock scale and burst length only)
                    if isinstance(vv, tuple):
                        if got["mem"][m][kk] not in vv:
                            raise Violation("C18/%s/value/%s_%s" % (where, "mem", kk), "%s %s: not given in the file, resolved %r (admissible defaults %r)" % (m, kk, got["mem"][m][kk], vv), case)
                        continue
                    if got["mem"][m][kk] != vv:
                        raise Violation("C18/%s/value/%s_%s" % (where, "mem", kk), "%s %s: resolved %r, documented rules give %r" % (m, kk, got["mem"][m][kk], vv), case)
            continue
        if k in got and got[k] != v:
            raise Violation("C18/%s/value/%s" % (where, k), "%s: resolved %r, documented rules give %r" % (k, got[k], v), case)


def is_nontrivial(case, rejected):
    if rejected:
        return True
    if case["files"] is None:
        return False
    secs = merged_sections(case["files"])
    for name in ("System_Config." + case["system_config"], "Memory_Mode." + case["memory_mode"]):
        seen = {}
        cur = name
        depth = 0
        while cur in secs and depth < 8:
            for k in secs[cur]:
                if k != "inherit":
                    seen[k] = seen.get(k, 0) + 1
            cur = secs[cur].get("inherit")
            depth += 1
        if depth > 1 and any(c > 1 for c in seen.values()):
            return True
    return False


def oracle_direct(case, rec=None):
    try:
        exp = reference(case)
        rejected = False
    except Reject as r:
        exp, rejected, why = None, True, str(r)
    res = forkcall.forkcall(observe_direct, case, 120)
    if res[0] == "exc":
        if rejected and why in ("bad memory name", "bad port name"):
            pass  # an unknown enum name is rejected with some exception; accepted
        elif res[3] is None:
            raise HarnessError("harness error: %s" % res[4])
        else:
            raise Violation("C18/direct/exception/%s@%s" % (res[1], res[3]), "%s: %s" % (res[1], res[2]), case)
    elif res[0] != "ok":
        raise Violation("C18/direct/process-%s" % res[0], str(res), case)
    else:
        out = res[1]
        if rejected:
            if out[0] != "reject":
                raise Violation("C18/direct/accepted-invalid", "configuration must be rejected (%s) but was accepted: %s" % (why, {k: out[1][k] for k in ("arena_cache_size", "permanent_storage", "feature_map_storage", "fast_storage")}), case)
        else:
            if out[0] == "reject":
                raise Violation("C18/direct/rejected-valid", "valid configuration rejected: %s %s" % (out[1], out[2]), case)
            compare(case, exp, out[1], "direct")
    if rec is not None:
        rec.cls("rejected" if rejected else "accepted", case["accel"])
        if is_nontrivial(case, rejected):
            rec.nontriv(case, sample=case)


# ----------------------------------------------------------------------------------------------------------
def case_strategy(cli=False):
    from hypothesis import strategies as st

    names = ["A", "B", "C", "D", "E"]

    @st.composite
    def case(draw):
        accel = draw(st.sampled_from(hw.ACCEL_NAMES))
        MA = max_addr(accel)
        nsys, nmem = draw(st.integers(1, 4)), draw(st.integers(1, 5))
        good = draw(st.integers(0, 3)) != 0  # mostly legal mappings so that the success path is exercised
        sys_secs, mem_secs = {}, {}
        for i in range(nsys):
            o = {}
            if i > 0 and draw(st.integers(0, 2)) != 0:
                o["inherit"] = "System_Config." + draw(st.sampled_from(names[:i]))
            if draw(st.integers(0, 3)) != 0:
                o["core_clock"] = draw(st.sampled_from(["1e9", "500e6", "200e6", "123456789", "2.5e8"]))
            for p, choices in (("axi0_port", ["Sram"] if good else MEMS), ("axi1_port", ["Dram", "OffChipFlash", "OnChipFlash"] if good else MEMS)):
                if draw(st.integers(0, 2)) != 0 or (i == 0 and good):
                    o[p] = draw(st.sampled_from(choices))
            for m in MEMS:
                if draw(st.integers(0, 2)) == 0:
                    o[m + "_clock_scale"] = draw(st.sampled_from(["1.0", "0.5", "0.125", "0.0625", "0.75"]))
                if draw(st.integers(0, 2)) == 0:
                    o[m + "_burst_length"] = str(draw(st.sampled_from([1, 16, 32, 64, 128])))
                if draw(st.integers(0, 2)) == 0:
                    o[m + "_read_latency"] = str(draw(st.sampled_from([1, 32, 64, 500])))
                if draw(st.integers(0, 3)) == 0:
                    o[m + "_write_latency"] = str(draw(st.sampled_from([1, 32, 64, 250])))
            sys_secs["System_Config." + names[i]] = o
        for i in range(nmem):
            o = {}
            if i > 0 and draw(st.integers(0, 2)) != 0:
                o["inherit"] = "Memory_Mode." + draw(st.sampled_from(names[:i]))
            for a, choices in (("const_mem_area", ["Axi1"] if good else PORTS), ("arena_mem_area", PORTS), ("cache_mem_area", ["Axi0"] if good else PORTS)):
                if draw(st.integers(0, 2)) != 0 or (i == 0 and good):
                    o[a] = draw(st.sampled_from(choices))
            if draw(st.integers(0, 2)) != 0:
                o["arena_cache_size"] = str(draw(st.one_of(st.sampled_from([0, 1, 393216, 524288, 2097152, MA, MA + 1, -1, 1 << 41, (1 << 32) - 1]), st.integers(0, 1 << 24))))
            mem_secs["Memory_Mode." + names[i]] = o
        # special shapes
        sp = draw(st.integers(0, 14))
        if sp == 0:
            k = draw(st.sampled_from(sorted(mem_secs)))
            mem_secs[k]["inherit"] = k
        elif sp == 1:
            k = draw(st.sampled_from(sorted(sys_secs)))
            sys_secs[k]["inherit"] = k
        elif sp == 2:
            mem_secs[draw(st.sampled_from(sorted(mem_secs)))]["inherit"] = "Memory_Mode.Missing"
        elif sp == 3:
            sys_secs[draw(st.sampled_from(sorted(sys_secs)))]["inherit"] = "System_Config.Missing"
        elif sp == 4:  # Sram only
            mem_secs[sorted(mem_secs)[0]].update(const_mem_area="Axi0", arena_mem_area="Axi0", cache_mem_area="Axi0")
        # split over one or two files (inheritance across files, duplicate sections)
        if draw(st.booleans()):
            f1, f2 = {}, {}
            for k, v in list(sys_secs.items()) + list(mem_secs.items()):
                where = draw(st.integers(0, 3))
                if where in (0, 3):
                    f1[k] = dict(v)
                if where in (1, 3) or (where == 2):
                    f2[k] = dict(v) if where != 3 else {kk: vv for kk, vv in v.items() if draw(st.booleans())}
            files = [f1, f2]
        else:
            files = [dict(list(sys_secs.items()) + list(mem_secs.items()))]
        if draw(st.integers(0, 9)) == 0 and not cli:
            files = None
        sel = lambda avail, part: draw(st.sampled_from([n for n in names if part + n in avail] * 4 + ["internal-default", "Nope"]))  # noqa
        allsecs = merged_sections(files) if files is not None else {}
        return dict(kind="cli" if cli else "direct", accel=accel, files=files, system_config=sel(allsecs, "System_Config."), memory_mode=sel(allsecs, "Memory_Mode."),
                    cli_size=draw(st.one_of(st.none(), st.none(), st.sampled_from([0, 1, 65536, 393216, 2097152, MA, MA + 1, -1]), st.integers(0, 1 << 22))))

    return case()


def direct(ctx, arg, rec):
    shard, n = arg
    run_hypothesis(rec, case_strategy(False), oracle_direct, n, sub_seed(ctx.seed, PROPERTY, "direct", shard))


# ----------------------------------------------------------------------------------------------------------
def bundled_ini():
    import configparser

    cp = configparser.ConfigParser()
    cp.optionxform = str
    cp.read(os.path.join(velaenv.REPO, "ethosu", "config_files", "Arm", "vela.ini"))
    return {s: dict(cp.items(s)) for s in cp.sections()}


def oracle_default(case, rec=None):
    """internal-default must equal the named sections of the bundled Arm/vela.ini (OPTIONS.md 'maps to the following configs')"""
    accel = case["accel"]
    u65 = hw.ACCELS[accel]["product"] == 1
    ini = bundled_ini()
    named = dict(kind="direct", accel=accel, files=[ini], system_config="Ethos_U65_Client_Server" if u65 else "Ethos_U55_High_End_Embedded",
                 memory_mode="Dedicated_Sram" if u65 else "Shared_Sram", cli_size=case["cli_size"])
    dflt = dict(kind="direct", accel=accel, files=None, system_config="internal-default", memory_mode="internal-default", cli_size=case["cli_size"])
    r1 = forkcall.forkcall(observe_direct, named, 120)
    r2 = forkcall.forkcall(observe_direct, dflt, 120)
    if r1[0] != "ok" or r2[0] != "ok":
        raise Violation("C18/default/failed", "%s / %s" % (r1[:3], r2[:3]), case)
    a, b = r1[1], r2[1]
    if a[0] != b[0]:
        raise Violation("C18/default/outcome", "named sections: %s, internal-default: %s" % (a[:2], b[:2]), case)
    if a[0] == "ok" and a[1] != b[1]:
        diff = {k: (a[1][k], b[1][k]) for k in a[1] if a[1][k] != b[1][k]}
        raise Violation("C18/default/value", "internal-default differs from the documented sections of Arm/vela.ini: %s" % diff, case)
    oracle_direct(dflt, None)
    if rec is not None:
        rec.cls("default-equivalence")
        rec.nontriv(case, sample=case)


def defaults(ctx, arg, rec):
    for accel in hw.ACCEL_NAMES:
        for size in (None, 0, 65536, max_addr(accel), max_addr(accel) + 1):
            case = dict(kind="default", accel=accel, cli_size=size)
            rec.case()
            try:
                rec.check(oracle_default, case, rec)
            except Violation as v:
                rec.violation(v)
                return


# ----------------------------------------------------------------------------------------------------------
_NET = None


def tiny_network():
    global _NET
    if _NET is None:
        import tflbuild

        _NET = tflbuild.simple_conv_model(8, 8, 4, 8, 3, 0, 1)
    return _NET


def observe_cli(case):
    """forked child: run vela.main in a temp working tree, return (exit code, stdout)"""
    velaenv.init()
    import contextlib
    import sys
    from ethosu.vela import vela

    d = tempfile.mkdtemp(prefix="c18cli-")
    try:
        os.makedirs(os.path.join(d, "work", "sub"))
        net = os.path.join(d, "net.tflite")
        with open(net, "wb") as f:
            f.write(case["net"])
        args = [net, "--output-dir", os.path.join(d, "out"), "--accelerator-config", case["accel"], "--verbose-config"]
        cwd = os.path.join(d, "work") if case["cwd"] == "work" else os.path.join(d, "work", "sub") if case["cwd"] == "sub" else d
        if case["files"] is not None:
            paths = write_files(case, os.path.join(d, "work"))
            for p in paths:
                form = case["path_form"]
                if form == "abs":
                    args += ["--config", p]
                elif form == "rel":
                    args += ["--config", os.path.relpath(p, cwd)]
                else:
                    rp = os.path.relpath(p, cwd)
                    args += ["--config", rp if rp.startswith(".") else "./" + rp]
        elif case.get("bundled"):
            args += ["--config", case["bundled"]]
        if case["system_config"] != "internal-default" or case.get("explicit_default"):
            args += ["--system-config", case["system_config"]]
        if case["memory_mode"] != "internal-default" or case.get("explicit_default"):
            args += ["--memory-mode", case["memory_mode"]]
        if case["cli_size"] is not None:
            args += ["--arena-cache-size", str(case["cli_size"])]
        os.chdir(cwd)
        buf = io.StringIO()
        code = None
        with contextlib.redirect_stdout(buf), contextlib.redirect_stderr(buf):
            try:
                code = vela.main(args)
            except SystemExit as e:
                code = e.code if isinstance(e.code, int) else 1
        return code, buf.getvalue(), args[1:]
    finally:
        os.chdir("/")
        shutil.rmtree(d, ignore_errors=True)


def parse_verbose(out):
    g = {}
    for key in ("core_clock", "axi0_port", "axi1_port", "const_mem_area", "arena_mem_area", "cache_mem_area", "permanent_storage_mem_area",
                "feature_map_storage_mem_area", "fast_storage_mem_area"):
        m = re.search(r"^\s+%s = (\S+)" % key, out, re.M)
        if m:
            g[key] = m.group(1)
    m = re.search(r"^\s+arena_cache_size = (-?\d+) from (.+)$", out, re.M)
    if m:
        g["arena_cache_size"] = int(m.group(1))
        g["size_from"] = m.group(2).strip()
    for mem in MEMS:
        m1 = re.search(r"^\s+%s_clock_scales = (\S+)" % mem, out, re.M)
        m2 = re.search(r"^\s+%s_burst_length = (\S+)" % mem, out, re.M)
        if m1 and m2:
            g.setdefault("mem", {})[mem] = dict(clock_scale=float(m1.group(1)), burst_length=int(m2.group(1)))
    return g


def oracle_cli(case, rec=None):
    case = dict(case)
    ref_case = dict(case)
    if case.get("bundled"):
        ref_case["files"] = [bundled_ini()]
    imx_default = case["files"] is None and not case.get("bundled") and case["system_config"] == case["memory_mode"] == "internal-default"
    try:
        exp = reference(ref_case)
        rejected = False
    except Reject as r:
        exp, rejected, why = None, True, str(r)
    if case["files"] is not None and case.get("path_form") in ("rel", "dot") and case["cwd"] == "root":
        # 'work/cfg0.ini' (also written './work/cfg0.ini': the path is normalised first): a two-component relative name is by definition looked up in the
        # bundled config_files directory (OPTIONS.md); the property does not promise anything else for the './' spelling
        exp, rejected, why = None, True, "Dir/file.ini form resolves to the bundled configuration directory, where it does not exist"
    run = dict(case, net=tiny_network())
    res = forkcall.forkcall(observe_cli, run, 300)
    if res[0] == "exc":
        raise Violation("C18/cli/exception/%s@%s" % (res[1], res[3]), "%s: %s" % (res[1], res[2]), case)
    if res[0] != "ok":
        raise Violation("C18/cli/process-%s" % res[0], str(res), case)
    code, out, args = res[1]
    if "Traceback (most recent call last)" in out:
        if not (rejected and why in ("bad memory name", "bad port name")):
            raise Violation("C18/cli/traceback", "vela %s printed a traceback: %s" % (" ".join(args), out.strip().splitlines()[-1][:200]), case)
    if rejected:
        if code == 0:
            raise Violation("C18/cli/accepted-invalid", "vela %s: configuration must be rejected (%s) but exit status is 0" % (" ".join(args), why), case)
        if "Error:" not in out and "error:" not in out:
            raise Violation("C18/cli/no-diagnosis", "vela %s exited %s without an error message" % (" ".join(args), code), case)
    else:
        if code != 0:
            last = [l for l in out.strip().splitlines() if l.strip()][-1:] or [""]
            raise Violation("C18/cli/rejected-valid", "vela %s exited %s: %s" % (" ".join(args), code, last[0][:300]), case)
        got = parse_verbose(out)
        if "arena_cache_size" not in got:
            raise Violation("C18/cli/no-verbose-output", "--verbose-config printed no configuration", case)
        got2 = dict(got)
        got2.update(permanent_storage=got.get("permanent_storage_mem_area"), feature_map_storage=got.get("feature_map_storage_mem_area"), fast_storage=got.get("fast_storage_mem_area"))
        got2["core_clock"] = float(got2["core_clock"])
        exp2 = dict(exp)
        exp2.pop("spilling", None)
        if imx_default:
            # the fork's default path (no --config): an i.MX93 system configuration; only the documented memory-mode side is compared
            for k in ("core_clock", "mem", "axi0_port", "axi1_port", "permanent_storage", "feature_map_storage", "fast_storage"):
                exp2.pop(k, None)
            if case["cli_size"] is None:
                exp2["arena_cache_size"] = 384 * 1024 if hw.ACCELS[case["accel"]]["product"] == 1 else exp2["arena_cache_size"]
                if hw.ACCELS[case["accel"]]["product"] != 1:
                    exp2.pop("arena_cache_size")
        compare(case, exp2, got2, "cli")
        want_from = {"cli": "CLI option", "file": "Configuration file", "default": "Default"}[exp["size_from"]]
        if not imx_default and got.get("size_from") != want_from:
            raise Violation("C18/cli/size-origin", "arena_cache_size reported as coming from %r, expected %r" % (got.get("size_from"), want_from), case)
    if rec is not None:
        rec.cls("cli-rejected" if rejected else "cli-accepted", "path-" + str(case.get("bundled") or case.get("path_form")), "cwd-" + case["cwd"])
        if rejected or case.get("bundled") or case.get("path_form") != "abs" or is_nontrivial(ref_case, False):
            rec.nontriv(case, sample=case)


def cli_strategy():
    from hypothesis import strategies as st

    @st.composite
    def case(draw):
        if draw(st.integers(0, 2)) == 0:
            accel = draw(st.sampled_from(hw.ACCEL_NAMES))
            u65 = hw.ACCELS[accel]["product"] == 1
            sysn = draw(st.sampled_from((["Ethos_U65_Embedded", "Ethos_U65_Mid_End", "Ethos_U65_High_End", "Ethos_U65_Client_Server"] if u65 else
                                         ["Ethos_U55_Deep_Embedded", "Ethos_U55_High_End_Embedded"]) + ["internal-default", "Missing"]))
            memn = draw(st.sampled_from(["Sram_Only", "Shared_Sram", "Dedicated_Sram", "Dedicated_Sram_512KB", "internal-default", "Missing"]))
            c = dict(kind="cli", accel=accel, files=None, bundled=draw(st.sampled_from(["Arm/vela.ini", "Arm/vela.ini", "ABS"])), system_config=sysn, memory_mode=memn,
                     cli_size=draw(st.one_of(st.none(), st.none(), st.sampled_from([0, 65536, 2097152]))))
            if c["bundled"] == "ABS":
                c["bundled"] = os.path.join(velaenv.REPO, "ethosu", "config_files", "Arm", "vela.ini")
            if draw(st.integers(0, 5)) == 0:
                c.update(bundled=None, system_config="internal-default", memory_mode="internal-default")
        else:
            c = draw(case_strategy(True))
            c["path_form"] = draw(st.sampled_from(["abs", "rel", "dot"]))
        c["cwd"] = draw(st.sampled_from(["root", "work", "sub"]))
        c["explicit_default"] = draw(st.booleans())
        return c

    return case()


def cli(ctx, arg, rec):
    shard, n = arg
    run_hypothesis(rec, cli_strategy(), oracle_cli, n, sub_seed(ctx.seed, PROPERTY, "cli", shard))


def parts(ctx):
    q = ctx.quick
    return ([Part("direct%02d" % i, direct, (i, 200 if q else 6000)) for i in range(8)] + [Part("defaults", defaults, None)] +
            [Part("cli%02d" % i, cli, (i, 12 if q else 600)) for i in range(7)])


def replay(ctx, case):
    k = case.get("kind")
    if k == "cli":
        oracle_cli(case, None)
    elif k == "default":
        oracle_default(case, None)
    else:
        oracle_direct(case, None)

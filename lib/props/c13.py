"""C13 - any structurally valid model either compiles or is rejected with a diagnosis."""
import os
import re

from runner import Part, Violation, sub_seed, run_hypothesis, HarnessError
import tflgen
import vcompile
import vmodel

PROPERTY = "C13"
RULE = (
    "Hypothesis networks from the widest tflgen profile (1-7 operators from ~45 kinds incl. CPU-only, float and custom operators; ranks 1-4; int8/uint8/int16; "
    "per-tensor and per-axis quantisation; residual/concat/split graph shapes, several inputs/outputs, intermediates that are also outputs) x compiler "
    "configuration (6 accelerators x memory modes x Size/Performance x arena cache size x 3 allocators x alignment x block dependency x verbose/debug flags) x "
    "entry point (main / convert / convert_bytes); each compiled in a forked pristine process. oracle = outcome classification: exit 0 with an output file that "
    "parses, or non-zero with an 'Error:' line and no traceback; anything else is a violation bucketed by (exception type, innermost repository frame). "
    "non-trivial = model with >=1 operator that reaches the NPU (an ethos-u operator in the output) or an honest rejection; distinct = hash(operator kinds, config class)."
)
ASSUMPTIONS = [
    "structurally valid = what the TFLite converter can emit: correct operand roles, shape-consistent tensors (tflgen builds them by construction)",
    "termination is observed with a 300 s watchdog; expiry is reported as inconclusive, not as a violation",
]

EXTRA_FLAGS = ["--verbose-graph", "--verbose-quantization", "--verbose-packing", "--verbose-tensor-purpose", "--verbose-tensor-format", "--verbose-schedule",
               "--verbose-allocation", "--verbose-high-level-command-stream", "--verbose-register-command-stream", "--verbose-operators", "--verbose-weights",
               "--verbose-performance", "--verbose-progress", "--verbose-config", "--show-cpu-operations", "--timing", "--enable-debug-db", "--verbose-all",
               "--force-symmetric-int-weights", "--show-subgraph-io-summary", "--subgraph-output", "--hillclimb-max-iterations=1", "--hillclimb-max-iterations=7",
               "--recursion-limit=2000"]


VELA_ERRORS = ("VelaError", "InputFileError", "UnsupportedFeatureError", "CliOptionError", "ConfigOptionError", "AllocationError", "ByteAlignmentError", "ByteSizeError")


def crash_tags(spec, cfg=None):
    import constructs

    return constructs.tags(spec, cfg)


def classify(res, case):
    """returns ('ok'|'rejected'|'inconclusive', info) or raises Violation"""
    if res.get("timeout"):
        return "inconclusive", "watchdog"
    if res.get("harness"):
        raise HarnessError("harness failure while compiling: %s" % (res["exc"][3],))
    if res.get("died") is not None and res.get("code") is None and res.get("exc") is None:
        raise Violation("C13/process-died", "compiler process died with status %s" % res["died"], case)
    out = res["stdout"]
    if res["exc"] is not None:
        t, msg, frame, tb = res["exc"]
        if t in VELA_ERRORS and case.get("entry", "main") in ("convert", "convert_bytes"):
            # the library entry points report a rejection by raising the compiler's own error type (the command line catches it and prints 'Error: ...')
            return "rejected", [msg[:200]]
        raise Violation("C13/crash/%s@%s" % (t, frame), "%s: %s" % (t, msg), case, tags=crash_tags(case["spec"], case["cfg"]))
    if "Traceback (most recent call last)" in out:
        m = re.findall(r'File "[^"]*/ethosu/([^"]+)", line \d+, in (\w+)', out)
        last = out.strip().splitlines()[-1][:200]
        raise Violation("C13/traceback/%s" % (":".join(m[-1]) if m else "?"), last, case)
    if res["code"] == 0:
        if res["out_model"] is None:
            raise Violation("C13/no-output", "exit status 0 but no output model was written", case)
        try:
            m = vmodel.load(res["out_model"])
        except vmodel.ModelError as e:
            raise Violation("C13/output-unparsable", str(e), case)
        return "ok", m
    if "Error:" in out or "error:" in out or "usage:" in out:
        return "rejected", [l for l in out.splitlines() if "rror:" in l][-1:]
    raise Violation("C13/silent-failure", "exit status %s without a diagnosis; last output: %r" % (res["code"], out.strip().splitlines()[-1:] if out.strip() else ""), case)


def oracle(case, rec=None):
    res = vcompile.compile_spec(case["spec"], case["cfg"], capture=False, entry=case.get("entry", "main"))
    kind, info = classify(res, case)
    if rec is not None:
        ops = sorted(set(o["code"] for o in case["spec"]["ops"]))
        rec.cls("outcome-" + kind, "entry-" + case.get("entry", "main"), case["cfg"]["accel"])
        for o in ops:
            rec.cls("op-" + o)
        for c in case["spec"].get("corners", []):
            rec.cls("corner-" + c.split("/")[0], "corner-%s-%s" % (c.split("/")[0], kind))
        nontrivial = kind == "rejected"
        if kind == "ok":
            npu = any(o["custom_code"] == "ethos-u" for sg in info["subgraphs"] for o in sg["ops"])
            rec.cls("npu" if npu else "cpu-only")
            nontrivial = npu
        if nontrivial:
            rec.nontriv([ops, case["cfg"]["accel"], case["cfg"]["memory_mode"], case["cfg"]["optimise"], case["cfg"]["allocator"], case.get("entry"), len(case["spec"]["ops"])],
                        sample=dict(ops=[o["code"] for o in case["spec"]["ops"]], cfg=case["cfg"], outcome=kind, input=case["spec"]["tensors"][0]["shape"]))


def strategy(profile="wide"):
    from hypothesis import strategies as st

    @st.composite
    def case(draw):
        if profile == "symweights":
            # signed weights with non-zero zero points (per channel or per tensor), mostly together with the option that exists for them
            import copy
            import corners

            spec = copy.deepcopy(draw(tflgen.network(draw(st.sampled_from(["convs", "convs", "npu"])), max_ops=3, big=False, dtypes=("int8", "int8", "int16"))))
            spec["corners"] = [c for c in [corners.asym_perchannel(spec, draw, st) for _ in range(draw(st.integers(1, 2)))] if c]
            cfg = draw(tflgen.config())
            if draw(st.integers(0, 3)) != 0:
                cfg["extra"] = ["--force-symmetric-int-weights"]
            return dict(kind="compile", spec=spec, cfg=cfg, entry="main")
        if profile == "corners":
            import corners

            bases = ["wide", "npu", "npu", "slices", "rnn"]
            if os.environ.get("VERIF_CORNER_BASE"):  # exploration aid (never set by a registered command): corner features on one network family only
                bases = [os.environ["VERIF_CORNER_BASE"]]
            spec = draw(tflgen.network(draw(st.sampled_from(bases)), max_ops=4, big=False))
            spec = corners.apply(spec, draw, st)
        else:
            spec = draw(tflgen.network(profile, max_ops=7, big=True))
        cfg = draw(tflgen.config())
        entry = draw(st.sampled_from(["main"] * 8 + ["convert", "convert_bytes"]))
        if entry == "main" and draw(st.integers(0, 3)) == 0:
            cfg["extra"] = draw(st.lists(st.sampled_from(EXTRA_FLAGS), min_size=1, max_size=3, unique=True))
        if entry == "main" and any(c.startswith("asym-per") or c.startswith("odd-quant/zp") for c in spec.get("corners", [])) and draw(st.booleans()):
            cfg["extra"] = sorted(set(cfg.get("extra", []) + ["--force-symmetric-int-weights"]))  # the option that rewrites weight zero points
        return dict(kind="compile", spec=spec, cfg=cfg, entry=entry)

    return case()


def compiles(ctx, arg, rec):
    shard, n, profile = arg
    run_hypothesis(rec, strategy(profile), oracle, n, sub_seed(ctx.seed, PROPERTY, profile, shard))


def atheris_part(ctx, arg, rec):
    """coverage-guided tier (lib/fuzz_c13.py): libFuzzer drives the Hypothesis strategies through fuzz_one_input with the compiler instrumented and running in-process; every
    violation bucket it reports is replayed here in a pristine forked process before it counts"""
    import json
    import shutil
    import subprocess
    import sys
    import tempfile

    from runner import VERIF

    shard, runs, profiles = arg
    d = tempfile.mkdtemp(prefix="c13fz-")
    try:
        env = dict(os.environ, PYTHONHASHSEED="0")
        cmd = [sys.executable, os.path.join(VERIF, "lib", "fuzz_c13.py"), d, str(sub_seed(ctx.seed, PROPERTY, "atheris", shard) % (1 << 31) or 1), str(runs)] + list(profiles)
        r = subprocess.run(cmd, env=env, capture_output=True, text=True, timeout=6 * 3600)
        path = os.path.join(d, "result.json")
        if not os.path.exists(path):
            raise HarnessError("atheris target produced no result (exit %s): %s" % (r.returncode, (r.stderr or r.stdout)[-1500:]))
        with open(path) as f:
            res = json.load(f)
        rec.case(res["executions"])
        rec.cls(*(["atheris-execution"] * 1))
        rec.classes["atheris-execution"] += res["executions"] - 1
        for k, n in res["outcomes"].items():
            rec.classes["atheris-outcome-" + k] += n
        rec.classes["atheris-known-finding-masked"] += res.get("masked", 0)
        m = [l for l in (r.stderr or "").splitlines() if "new_units_added" in l]
        if m:
            rec.notes.append("atheris shard %d: %d executions, %s" % (shard, res["executions"], m[-1].strip()))
        if res["executions"] > res.get("seeded", 0):
            rec.nontriv(["atheris", shard, res["executions"]], sample=dict(kind="atheris", executions=res["executions"], outcomes=res["outcomes"], profiles=res["profiles"]))
        for key, b in res["buckets"].items():
            try:
                rec.check(oracle, b["case"], None)  # pristine forked process
            except Violation as v:
                rec.violation(v)
    finally:
        shutil.rmtree(d, ignore_errors=True)


def parts(ctx):
    q = ctx.quick
    return [Part("wide%02d" % i, compiles, (i, 45 if q else 2000, "wide")) for i in range(12)] + [Part("npu%02d" % i, compiles, (i, 45 if q else 1000, "npu")) for i in range(4)] + [
        Part("reshapes%02d" % i, compiles, (i, 40 if q else 1500, "reshapes")) for i in range(4)] + [Part("corners%02d" % i, compiles, (i, 50 if q else 2000, "corners")) for i in range(4)] + [
        Part("tall%02d" % i, compiles, (i, 30 if q else 800, "tall")) for i in range(2)] + [Part("symweights%02d" % i, compiles, (i, 30 if q else 800, "symweights")) for i in range(1)] + [
        Part("atheris%02d" % i, atheris_part, (i, 150 if q else 6000, [["corners"], ["wide", "npu"], ["corners", "tall"], ["cpumix", "reshapes"], ["rnn", "fanout"]][i % 5])) for i in range(2 if q else 16)] + [Part("fanout%02d" % i, compiles, (i, 40 if q else 1500, "fanout")) for i in range(2)] + [
        Part("rnn%02d" % i, compiles, (i, 30 if q else 1200, "rnn")) for i in range(2)]


def replay(ctx, case):
    oracle(case, None)

"""coverage-guided tier of C13 (atheris / libFuzzer): the fuzzer's bytes drive the Hypothesis strategies of lib/props/c13.py through `fuzz_one_input`, so every
mutation is still a structurally valid model + option set; the compiler runs *in this process* (instrumented: ethosu.vela) so that libFuzzer sees which branches of the
compiler an input reached and keeps inputs that reach new ones.  Compiling many models in one process is sound because C14 (no state leaks between compilations) is
checked separately; a finding is replayed in a pristine forked process before it is reported, so a leak could at worst hide, never fake, a violation.

usage (driven by props/c13.py, thorough tier):  fuzz_c13.py OUTDIR SEED RUNS [PROFILE...]
writes OUTDIR/result.json = dict(executions, outcomes, buckets={key: case}, features=coverage summary line of libFuzzer)
The oracle is C13's outcome classification (props/c13.classify); known findings are masked exactly as in the Hypothesis tier.
"""
import json
import os
import sys

HERE = os.path.dirname(os.path.abspath(__file__))
sys.path[:0] = [HERE, os.path.join(os.path.dirname(HERE), "vendor"), os.path.join(os.path.dirname(HERE), ".deps")]


def main():
    outdir, seed, runs = sys.argv[1], int(sys.argv[2]), int(sys.argv[3])
    profiles = sys.argv[4:] or ["corners", "wide", "npu"]
    os.makedirs(outdir, exist_ok=True)
    import atheris
    import velaenv

    with atheris.instrument_imports(include=["ethosu.vela"], enable_loader_override=False):
        velaenv.init()
        from ethosu.vela import vela  # noqa: F401  (instrumented import of the whole compiler package)
        import ethosu.vela.tflite_graph_optimiser  # noqa: F401
        import ethosu.vela.scheduler  # noqa: F401
        import ethosu.vela.register_command_stream_generator  # noqa: F401

    import hypothesis
    from hypothesis import HealthCheck, given, settings, strategies as st

    import runner
    import vcompile
    from props import c13

    known = [k for k in runner.load_known() if k["property"] == "C13"]
    state = dict(n=0, outcomes={}, buckets={}, masked=0)

    def is_known(v):
        for k in known:
            if v.key.startswith(k["key"]) and (not k.get("tag") or k["tag"] in getattr(v, "tags", ())):
                return True
        return False

    strat = st.one_of(*[c13.strategy(p) for p in profiles])

    @settings(database=None, deadline=None, suppress_health_check=list(HealthCheck), max_examples=1)
    @given(strat)
    def test(case):
        state["n"] += 1
        res = vcompile._child((case["spec"], case["cfg"], False, case.get("entry", "main"), None))
        try:
            kind, _ = c13.classify(res, case)
            state["outcomes"][kind] = state["outcomes"].get(kind, 0) + 1
        except runner.Violation as v:
            if is_known(v):
                state["masked"] += 1
                return
            if v.key not in state["buckets"]:
                state["buckets"][v.key] = dict(message=v.message, case=case)
                flush()

    def flush():
        with open(os.path.join(outdir, "result.json"), "w") as f:
            json.dump(dict(executions=state["n"], seeded=state.get("seeded", 0), outcomes=state["outcomes"], masked=state["masked"], buckets=state["buckets"], profiles=profiles, seed=seed), f)

    corpus = os.path.join(outdir, "corpus")
    os.makedirs(corpus, exist_ok=True)
    argv = [sys.argv[0], "-runs=%d" % runs, "-seed=%d" % (seed or 1), "-max_len=4096", "-len_control=0", "-print_final_stats=1", "-verbosity=0", corpus]
    # (atexit handlers do not run under libFuzzer: the result file is rewritten from the target every few executions)
    orig = test.hypothesis.fuzz_one_input

    def target(data):
        r = orig(data)
        if state["n"] % 10 == 0:
            flush()
        return r

    # starting corpus: the canonical buffers Hypothesis returns for a few long pseudo-random byte strings (deterministic in the seed); libFuzzer mutates from those
    import random

    rng = random.Random(seed)
    for i in range(24):
        buf = orig(rng.randbytes(4096))
        if buf is not None:
            with open(os.path.join(corpus, "seed%02d" % i), "wb") as f:
                f.write(buf)
    state["seeded"] = state["n"]
    atheris.Setup(argv, target)
    try:
        atheris.Fuzz()
    finally:
        flush()


if __name__ == "__main__":
    main()

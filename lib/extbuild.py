"""E-build: rebuild the C pieces from /repo's *current working tree* and make the harness use them.

* codec: ethosu/mlw_codec/{mlw_encode,mlw_decode,mlw_codecmodule}.c -> build/<hash>/mlw_codec.so with the flags the
  package ships with (-O3 -DNDEBUG, sysconfig's), pre-loaded as sys.modules["ethosu.mlw_codec"].
* pinned reference decoder: vendor/mlw_decode.c (a frozen copy = "the hardware's decoder") -> build/refdec-<hash>.so
  exposing mlw_decode() through ctypes.
Everything is keyed by a hash of the sources, so an edited tree is always re-compiled and a fresh restore works.
"""
import ctypes
import hashlib
import importlib.machinery
import importlib.util
import os
import subprocess
import sys
import sysconfig

HERE = os.path.dirname(os.path.abspath(__file__))
VERIF = os.path.dirname(HERE)
REPO = os.environ.get("VERIF_REPO", "/repo")
BUILD = os.path.join(VERIF, "build")
CODEC_SRC = ["mlw_encode.c", "mlw_decode.c", "mlw_codecmodule.c"]


class BuildError(Exception):
    pass


def _hash_files(paths, extra=b""):
    h = hashlib.sha256(extra)
    for p in paths:
        with open(p, "rb") as f:
            h.update(os.path.basename(p).encode() + b"\0" + f.read())
    return h.hexdigest()[:20]


def _run(cmd):
    r = subprocess.run(cmd, capture_output=True, text=True)
    if r.returncode != 0:
        raise BuildError("build failed: %s\n%s\n%s" % (" ".join(cmd), r.stdout[-2000:], r.stderr[-4000:]))


def codec_dir():
    return os.path.join(REPO, "ethosu", "mlw_codec")


def build_codec(ndebug=True):
    """Compile the repo's codec extension; returns path of the .so"""
    import numpy

    d = codec_dir()
    srcs = [os.path.join(d, s) for s in CODEC_SRC]
    hdrs = sorted(os.path.join(d, f) for f in os.listdir(d) if f.endswith(".h"))
    tag = _hash_files(srcs + hdrs, b"ndebug" if ndebug else b"debug")
    outdir = os.path.join(BUILD, "codec-" + tag)
    out = os.path.join(outdir, "mlw_codec.so")
    if os.path.exists(out):
        return out
    os.makedirs(outdir, exist_ok=True)
    inc = sysconfig.get_paths()["include"]
    flags = ["-O3", "-fPIC", "-shared", "-fwrapv", "-DNPY_NO_DEPRECATED_API=NPY_1_9_API_VERSION"]
    if ndebug:
        flags.append("-DNDEBUG")
    tmp = out + ".tmp%d" % os.getpid()
    _run(["cc"] + flags + ["-I", inc, "-I", numpy.get_include(), "-I", d] + srcs + ["-o", tmp, "-lm"])
    os.replace(tmp, out)
    return out


def preload_codec(ndebug=True):
    """Make `from ethosu import mlw_codec` resolve to a build of the current tree."""
    path = build_codec(ndebug)
    if REPO not in sys.path:
        sys.path.insert(0, REPO)
    import ethosu  # noqa: F401  (namespace/regular package from REPO)

    loader = importlib.machinery.ExtensionFileLoader("ethosu.mlw_codec", path)
    spec = importlib.util.spec_from_file_location("ethosu.mlw_codec", path, loader=loader)
    mod = importlib.util.module_from_spec(spec)
    loader.exec_module(mod)
    sys.modules["ethosu.mlw_codec"] = mod
    ethosu.mlw_codec = mod
    return mod


_refdec = None


def ref_decoder():
    """ctypes handle on the pinned reference decoder (vendor/mlw_decode.c)."""
    global _refdec
    if _refdec is not None:
        return _refdec
    src = os.path.join(VERIF, "vendor", "mlw_decode.c")
    hdrs = [os.path.join(VERIF, "vendor", h) for h in ("mlw_decode.h", "mlw_common.h")]
    tag = _hash_files([src] + hdrs)
    out = os.path.join(BUILD, "refdec-%s.so" % tag)
    if not os.path.exists(out):
        os.makedirs(BUILD, exist_ok=True)
        tmp = out + ".tmp%d" % os.getpid()
        _run(["cc", "-O2", "-fPIC", "-shared", "-I", os.path.join(VERIF, "vendor"), src, "-o", tmp])
        os.replace(tmp, out)
    lib = ctypes.CDLL(out)
    lib.mlw_decode.restype = ctypes.c_int
    lib.mlw_decode.argtypes = [ctypes.c_char_p, ctypes.c_int, ctypes.POINTER(ctypes.POINTER(ctypes.c_int16)), ctypes.c_int]
    libc = ctypes.CDLL(None)
    libc.free.argtypes = [ctypes.c_void_p]

    def decode(data: bytes):
        import numpy as np

        outp = ctypes.POINTER(ctypes.c_int16)()
        n = lib.mlw_decode(bytes(data), len(data), ctypes.byref(outp), 0)
        if n < 0:
            if outp:
                libc.free(outp)
            raise ValueError("reference decoder: stream underrun / malformed stream")
        arr = np.ctypeslib.as_array(outp, shape=(n,)).astype(np.int64).copy() if n else np.zeros(0, np.int64)
        libc.free(outp)
        return arr

    _refdec = decode
    return decode


def setup_all():
    build_codec(True)
    ref_decoder()


if __name__ == "__main__":
    setup_all()
    print("ok")


def build_fuzzer(ndebug):
    """libFuzzer + ASan + UBSan target: repository encoder + pinned decoder + csrc/fuzz_mlw.c"""
    d = codec_dir()
    srcs = [os.path.join(d, "mlw_encode.c"), os.path.join(VERIF, "csrc", "fuzz_mlw.c"), os.path.join(VERIF, "vendor", "mlw_decode.c")]
    hdrs = sorted(os.path.join(d, f) for f in os.listdir(d) if f.endswith(".h"))
    tag = _hash_files(srcs + hdrs, b"fuzz-ndebug" if ndebug else b"fuzz-debug")
    out = os.path.join(BUILD, "fuzz-%s" % tag)
    if os.path.exists(out):
        return out
    os.makedirs(BUILD, exist_ok=True)
    tmpdir = out + ".d%d" % os.getpid()
    os.makedirs(tmpdir, exist_ok=True)
    common = ["clang", "-g", "-O1", "-fsanitize=fuzzer-no-link,address,undefined", "-fno-sanitize-recover=undefined", "-fno-omit-frame-pointer"]
    if ndebug:
        common.append("-DNDEBUG")
    _run(common + ["-I", d, "-c", srcs[0], "-o", os.path.join(tmpdir, "enc.o")])
    _run(common + ["-I", d, "-c", srcs[1], "-o", os.path.join(tmpdir, "fz.o")])
    _run(["clang", "-g", "-O1", "-Dmlw_decode=ref_mlw_decode", "-I", os.path.join(VERIF, "vendor"), "-c", srcs[2], "-o", os.path.join(tmpdir, "dec.o")])
    _run(["clang", "-fsanitize=fuzzer,address,undefined", os.path.join(tmpdir, "enc.o"), os.path.join(tmpdir, "fz.o"), os.path.join(tmpdir, "dec.o"), "-o", out + ".tmp", "-lm"])
    os.replace(out + ".tmp", out)
    import shutil

    shutil.rmtree(tmpdir, ignore_errors=True)
    return out

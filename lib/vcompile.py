"""E-cap / compile harness: run Vela on a generated network in a forked, pristine child and bring back the artefact.

compile_spec(spec, cfg, capture=False, entry="main") -> dict(
    code        exit status of vela.main (None if it raised),
    exc         None | (type name, message, innermost repository frame, traceback text),
    stdout      captured console output,
    out_model   bytes of <name>_vela.tflite (None if not written),
    summary     text of the *_summary_*.csv (None),
    captured    [ per generated register stream: dict(ops=[labels...]) ]  when capture=True
    died        exit code/signal when the child died, timeout=True on watchdog expiry )
The capture wraps high_level_command_to_npu_op.generate_command_stream inside the child (labels only; no repository change).
"""
import contextlib
import glob
import io
import os
import shutil
import tempfile

import fbwrite
import forkcall
import tflgen
import velaenv


def _label_fm_box(box):
    try:
        return [[int(v) for v in box.start_coord], [int(v) for v in box.end_coord]]
    except Exception:  # noqa
        return None


def _labels(npu_op_list, npu_op_to_cmd):
    from ethosu.vela.api import NpuDmaOperation

    out = []
    for op in npu_op_list:
        cmd = npu_op_to_cmd.get(op)
        lab = dict(dma=isinstance(op, NpuDmaOperation), name=getattr(op, "name", None))
        try:
            if lab["dma"]:
                lab.update(src=[op.src.region, op.src.address, op.src.length], dest=[op.dest.region, op.dest.address, op.dest.length])
                if cmd is not None and hasattr(cmd, "in_tensor"):
                    lab.update(in_tensor=cmd.in_tensor.name, out_tensor=cmd.out_tensor.name, in_purpose=cmd.in_tensor.purpose.name, box=_label_fm_box(cmd.box),
                               in_eq=str(cmd.in_tensor.equivalence_id), out_eq=str(cmd.out_tensor.equivalence_id))
            elif cmd is not None:
                ps = cmd.ps
                po = ps.primary_op
                lab.update(op_type=po.type.name, op_name=po.name, original_type=po.original_type.name if po.original_type else None,
                           ifm=cmd.ifm_tensor.name if cmd.ifm_tensor else None, ifm_eq=str(cmd.ifm_tensor.equivalence_id) if cmd.ifm_tensor else None,
                           ifm2=cmd.ifm2_tensor.name if cmd.ifm2_tensor else None, ifm2_eq=str(cmd.ifm2_tensor.equivalence_id) if cmd.ifm2_tensor else None,
                           ofm=cmd.ofm_tensor.name if cmd.ofm_tensor else None, ofm_eq=str(cmd.ofm_tensor.equivalence_id) if cmd.ofm_tensor else None,
                           ifm_box=_label_fm_box(cmd.ifm_box), ifm2_box=_label_fm_box(cmd.ifm2_box) if cmd.ifm2_box is not None else None, ofm_box=_label_fm_box(cmd.ofm_box),
                           ifm_shape=[int(v) for v in cmd.ifm_tensor.shape] if cmd.ifm_tensor else None, ofm_shape=[int(v) for v in cmd.ofm_tensor.shape],
                           ifm_storage=[int(v) for v in cmd.ifm_tensor.storage_shape] if cmd.ifm_tensor else None,
                           ofm_storage=[int(v) for v in cmd.ofm_tensor.storage_shape],
                           ifm_sub_purpose=cmd.ifm_tensor.sub_purpose.name if cmd.ifm_tensor else None, ofm_sub_purpose=cmd.ofm_tensor.sub_purpose.name,
                           first=bool(cmd.is_first_h_stripe), last=bool(cmd.is_last_h_stripe), pad_top=int(cmd.pad_top), pad_bottom=int(cmd.pad_bottom),
                           explicit_padding=[int(v) for v in po.attrs.get("explicit_padding", (0, 0, 0, 0))] if "explicit_padding" in po.attrs else None,
                           kernel=[po.kernel.width, po.kernel.height, po.kernel.stride.x, po.kernel.stride.y, po.kernel.dilation.x, po.kernel.dilation.y] if po.kernel else None,
                           read_offsets=[[int(x) for x in ro] if ro is not None else None for ro in po.read_offsets],
                           read_shapes=[[int(x) for x in rs] if rs is not None else None for rs in po.read_shapes],
                           write_offset=[int(x) for x in po.write_offset] if po.write_offset is not None else None,
                           write_shape=[int(x) for x in po.write_shape] if po.write_shape is not None else None,
                           ofm_stride_multiplier=[int(x) for x in getattr(po, "ofm_stride_multiplier", [1, 1, 1])],
                           ofm_full_shape=[int(x) for x in ps.ofm_shapes[0]] if ps.ofm_shapes else None, ifm_full_shape=[int(x) for x in ps.ifm_shapes[0]] if ps.ifm_shapes else None,
                           padding=getattr(po.attrs.get("padding"), "name", None),
                           lut_eq=([str(t.equivalence_id) for t in po.inputs if t is not None and t.purpose.name == "LUT"] or [None])[0],
                           scale_tensor=cmd.scale_tensor.name if getattr(cmd, "scale_tensor", None) is not None else None,
                           upscale=getattr(op.ifm_upscale, "name", None), weight_tensor=cmd.weight_tensor.name if cmd.weight_tensor is not None else None,
                           weight_box=_label_fm_box(cmd.weight_box) if cmd.weight_box is not None else None)
        except Exception as e:  # labels are best effort; they never decide a property on their own
            lab["label_error"] = "%s: %s" % (type(e).__name__, e)
        out.append(lab)
    return out


def _child(arg):
    spec, cfg, capture, entry, model_bytes = arg
    velaenv.init()
    from ethosu.vela import vela
    from ethosu.vela import high_level_command_to_npu_op as h2n

    res = dict(code=None, exc=None, stdout="", out_model=None, summary=None, captured=[])
    d = tempfile.mkdtemp(prefix="vcomp-")
    try:
        data = model_bytes if model_bytes is not None else fbwrite.build(spec)
        net = os.path.join(d, "net.tflite")
        with open(net, "wb") as f:
            f.write(data)
        if capture:
            orig = h2n.generate_command_stream

            def wrapped(npu_op_list, arch, verbose, mem_limits, add_to_debug_db=None, npu_op_to_cmd=None):
                words = orig(npu_op_list, arch, verbose, mem_limits, add_to_debug_db, npu_op_to_cmd)
                specs = None
                if capture == "specs":
                    from props import c06

                    specs = []
                    for o in npu_op_list:
                        try:
                            specs.append(c06.spec_from_op(o))
                        except Exception as e:  # noqa
                            specs.append(dict(kind="?", error="%s: %s" % (type(e).__name__, e)))
                res["captured"].append(dict(ops=_labels(npu_op_list, npu_op_to_cmd or {}), specs=specs, nwords=len(words), words=[int(w) for w in words]))
                return words

            h2n.generate_command_stream = wrapped
        out_dir = os.path.join(d, "out")
        buf = io.StringIO()
        os.chdir(d)
        try:
            with contextlib.redirect_stdout(buf), contextlib.redirect_stderr(buf):
                if entry == "main":
                    res["code"] = vela.main(tflgen.cli_args(cfg, net, out_dir))
                elif entry == "convert":
                    p = vela.convert(net)
                    res["code"] = 0
                    with open(p, "rb") as f:
                        res["out_model"] = f.read()
                else:
                    res["out_model"] = bytes(vela.convert_bytes(bytearray(data)))
                    res["code"] = 0
        except SystemExit as e:
            res["code"] = e.code if isinstance(e.code, int) else 1
        except BaseException as e:  # noqa
            import traceback

            res["exc"] = (type(e).__name__, str(e)[:400], forkcall._frame(e), "".join(traceback.format_exception(type(e), e, e.__traceback__))[-3000:])
        res["stdout"] = buf.getvalue()[-30000:]
        outs = glob.glob(os.path.join(out_dir, "*_vela.tflite"))
        if outs and res["out_model"] is None:
            with open(outs[0], "rb") as f:
                res["out_model"] = f.read()
        csvs = glob.glob(os.path.join(out_dir, "*_summary_*.csv"))
        if csvs:
            with open(csvs[0]) as f:
                res["summary"] = f.read()
        return res
    finally:
        os.chdir("/")
        shutil.rmtree(d, ignore_errors=True)


def compile_spec(spec, cfg, capture=False, entry="main", timeout=300, model_bytes=None):
    r = forkcall.forkcall(_child, (spec, cfg, capture, entry, model_bytes), timeout)
    if r[0] == "ok":
        return r[1]
    if r[0] == "exc":  # harness-side exception inside the child (not from vela.main)
        return dict(code=None, exc=(r[1], r[2], r[3], r[4]), stdout="", out_model=None, summary=None, captured=[], harness=True)
    if r[0] == "timeout":
        return dict(code=None, exc=None, stdout="", out_model=None, summary=None, captured=[], timeout=True)
    return dict(code=None, exc=None, stdout="", out_model=None, summary=None, captured=[], died=r[1] if len(r) > 1 else None)

"""Independent model of the hardware weight-stream order (DESIGN.md Appendix A / H3), vectorised.

ref_traversal(vol OHWI, ...) -> 1-D int64 array: the weights in the order the NPU consumes them, zeros where the
traversal leaves the volume (depth padding to micro-blocks, kernel-element padding).
inverse_traversal(flat, shape, ...) -> OHWI volume (and checks that padding positions are zero).
"""
import numpy as np


def _blocks(ofm_depth, kh, kw, ifm_depth, ofm_block_depth, depthwise, partkernel, ifm_bits, ifm_ubd, ofm_ubd, decomp_h, decomp_w):
    """yields index arrays (ofm_z, ky_abs, kx_abs, ifm_z, valid) for each traversal block, in stream order"""
    ifm_block_depth = 16 if (partkernel or ifm_bits == 16) else 32
    for ofm_block_z in range(0, ofm_depth, ofm_block_depth):
        cobd = min(ofm_block_depth, ofm_depth - ofm_block_z)
        for ifm_block_z in range(0, 1 if depthwise else ifm_depth, ifm_block_depth):
            if depthwise:
                cibd = ifm_ubd
            else:
                cibd = min(ifm_block_depth, ifm_depth - ifm_block_z) if partkernel else ifm_block_depth
            for sky in range(0, kh, decomp_h):
                sh = min(kh - sky, decomp_h)
                for skx in range(0, kw, decomp_w):
                    sw = min(kw - skx, decomp_w)
                    se = sw * sh
                    if partkernel:
                        q = 2 if ifm_bits == 16 else 4
                        se = -(-se // q) * q
                    elif depthwise:
                        se = -(-se // 4) * 4
                    outer = cibd if partkernel else 1
                    inner = 1 if partkernel else cibd
                    n_outer = len(range(0, outer, ifm_ubd))
                    n_oub = len(range(0, cobd, ofm_ubd))
                    n_inner = len(range(0, inner, ifm_ubd))
                    n_iz = 1 if depthwise else ifm_ubd
                    # loop nest: iuo, ofm_ublk, element, iui, oz, iz
                    iuo, oub, el, iui, oz, iz = np.indices((n_outer, n_oub, se, n_inner, ofm_ubd, n_iz)).reshape(6, -1)
                    kx = el % sw
                    ky = el // sw
                    ifm_z = ifm_block_z + (iui + iuo) * ifm_ubd + iz
                    ofm_z = ofm_block_z + oub * ofm_ubd + oz
                    valid = (ifm_z < (ifm_depth)) & (ofm_z < ofm_depth) & (ky < sh)
                    yield ofm_z, sky + ky, skx + kx, ifm_z, valid


def ref_traversal(vol, ofm_block_depth, depthwise, partkernel, ifm_bits, ifm_ubd, ofm_ubd, decomp_h=8, decomp_w=8):
    vol = np.asarray(vol).astype(np.int64)
    od, kh, kw, idp = vol.shape
    out = []
    for ofm_z, ky, kx, ifm_z, valid in _blocks(od, kh, kw, idp, ofm_block_depth, depthwise, partkernel, ifm_bits, ifm_ubd, ofm_ubd, decomp_h, decomp_w):
        v = np.zeros(len(valid), np.int64)
        idx = np.nonzero(valid)[0]
        v[idx] = vol[ofm_z[idx], ky[idx], kx[idx], ifm_z[idx]]
        out.append(v)
    return np.concatenate(out) if out else np.zeros(0, np.int64)


def inverse_traversal(flat, shape, ofm_block_depth, depthwise, partkernel, ifm_bits, ifm_ubd, ofm_ubd, decomp_h=8, decomp_w=8):
    """returns (volume, problem) ; problem is None or a string (non-zero padding / short stream / trailing non-zero)"""
    od, kh, kw, idp = shape
    flat = np.asarray(flat).astype(np.int64)
    vol = np.zeros(shape, np.int64)
    n = 0
    problem = None
    for ofm_z, ky, kx, ifm_z, valid in _blocks(od, kh, kw, idp, ofm_block_depth, depthwise, partkernel, ifm_bits, ifm_ubd, ofm_ubd, decomp_h, decomp_w):
        m = len(valid)
        if n + m > len(flat):
            return vol, "stream holds %d weights, traversal needs at least %d" % (len(flat), n + m)
        seg = flat[n:n + m]
        idx = np.nonzero(valid)[0]
        vol[ofm_z[idx], ky[idx], kx[idx], ifm_z[idx]] = seg[idx]
        if problem is None and np.any(seg[~valid] != 0):
            problem = "non-zero weight in a padding position"
        n += m
    if problem is None and np.any(flat[n:] != 0):
        problem = "non-zero weight after the end of the traversal"
    return vol, problem


def first_slice_header(data: bytes):
    h = int.from_bytes(bytes(data[:8]), "little")
    return dict(zdiv=h & 7, slicelen=((h >> 3) & 0x7FFF) + 1, wdiv=(h >> 18) & 7, wtrunc=(h >> 21) & 1, newpal=(h >> 22) & 1,
                dirofs=(h >> 23) & 31, palsize=(h >> 28) & 31, palbits=((h >> 33) & 7) + 2)

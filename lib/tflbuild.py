"""minimal TFLite flatbuffer writer on the vendored accessor classes (vendor/vtfl), independent of Vela's writer"""
import flatbuffers
import numpy as np
from vtfl import (Model, SubGraph, Tensor, Operator, OperatorCode, Buffer, QuantizationParameters,
                                Conv2DOptions, DepthwiseConv2DOptions, Pool2DOptions, AddOptions, FullyConnectedOptions,
                                SoftmaxOptions, ReshapeOptions, MulOptions)
from vtfl.BuiltinOperator import BuiltinOperator as BO
from vtfl.BuiltinOptions import BuiltinOptions as BOpt
from vtfl.TensorType import TensorType as TT

NP2TT = {np.dtype('int8'): TT.INT8, np.dtype('uint8'): TT.UINT8, np.dtype('int16'): TT.INT16,
         np.dtype('int32'): TT.INT32, np.dtype('float32'): TT.FLOAT32, np.dtype('int64'): TT.INT64}


class T:
    def __init__(self, name, shape, dtype, scale=None, zp=None, data=None, qdim=0):
        self.name, self.shape, self.dtype = name, list(shape), np.dtype(dtype)
        self.scale, self.zp, self.data, self.qdim = scale, zp, data, qdim


class O:
    def __init__(self, code, inputs, outputs, opt_type=0, opt_fn=None, version=1, custom=None):
        self.code, self.inputs, self.outputs, self.opt_type, self.opt_fn, self.version = code, inputs, outputs, opt_type, opt_fn, version
        self.custom = custom


def vec_i32(b, start, vals):
    start(b, len(vals))
    for v in reversed(vals):
        b.PrependInt32(int(v))
    return b.EndVector()


def build(tensors, ops, inputs, outputs):
    b = flatbuffers.Builder(1024)
    # buffers
    buf_offs = []
    Buffer.BufferStart(b)
    buf_offs.append(Buffer.BufferEnd(b))
    tbuf = {}
    for i, t in enumerate(tensors):
        if t.data is not None:
            raw = np.ascontiguousarray(t.data, dtype=t.dtype).tobytes()
            b.StartVector(1, len(raw), 16)
            b.head = b.head - len(raw)
            b.Bytes[b.head:b.head + len(raw)] = raw
            dv = b.EndVector()
            Buffer.BufferStart(b)
            Buffer.BufferAddData(b, dv)
            buf_offs.append(Buffer.BufferEnd(b))
            tbuf[i] = len(buf_offs) - 1
    # op codes
    codes = []
    for o in ops:
        k = (o.code, o.version, o.custom)
        if k not in codes:
            codes.append(k)
    code_offs = []
    for (c, v, cust) in codes:
        cs = b.CreateString(cust) if cust else None
        OperatorCode.OperatorCodeStart(b)
        OperatorCode.OperatorCodeAddDeprecatedBuiltinCode(b, min(c, 127))
        OperatorCode.OperatorCodeAddBuiltinCode(b, c)
        OperatorCode.OperatorCodeAddVersion(b, v)
        if cs:
            OperatorCode.OperatorCodeAddCustomCode(b, cs)
        code_offs.append(OperatorCode.OperatorCodeEnd(b))
    # tensors
    t_offs = []
    for i, t in enumerate(tensors):
        name = b.CreateString(t.name)
        shp = vec_i32(b, Tensor.TensorStartShapeVector, t.shape)
        q = None
        if t.scale is not None:
            sc = np.atleast_1d(np.asarray(t.scale, dtype=np.float32))
            zp = np.atleast_1d(np.asarray(t.zp, dtype=np.int64))
            QuantizationParameters.QuantizationParametersStartScaleVector(b, len(sc))
            for v in reversed(sc):
                b.PrependFloat32(float(v))
            scv = b.EndVector()
            QuantizationParameters.QuantizationParametersStartZeroPointVector(b, len(zp))
            for v in reversed(zp):
                b.PrependInt64(int(v))
            zpv = b.EndVector()
            QuantizationParameters.QuantizationParametersStart(b)
            QuantizationParameters.QuantizationParametersAddScale(b, scv)
            QuantizationParameters.QuantizationParametersAddZeroPoint(b, zpv)
            QuantizationParameters.QuantizationParametersAddQuantizedDimension(b, t.qdim)
            q = QuantizationParameters.QuantizationParametersEnd(b)
        Tensor.TensorStart(b)
        Tensor.TensorAddShape(b, shp)
        Tensor.TensorAddType(b, NP2TT[t.dtype])
        Tensor.TensorAddBuffer(b, tbuf.get(i, 0))
        Tensor.TensorAddName(b, name)
        if q is not None:
            Tensor.TensorAddQuantization(b, q)
        t_offs.append(Tensor.TensorEnd(b))
    # ops
    o_offs = []
    for o in ops:
        opt = o.opt_fn(b) if o.opt_fn else None
        iv = vec_i32(b, Operator.OperatorStartInputsVector, o.inputs)
        ov = vec_i32(b, Operator.OperatorStartOutputsVector, o.outputs)
        Operator.OperatorStart(b)
        Operator.OperatorAddOpcodeIndex(b, codes.index((o.code, o.version, o.custom)))
        Operator.OperatorAddInputs(b, iv)
        Operator.OperatorAddOutputs(b, ov)
        if opt is not None:
            Operator.OperatorAddBuiltinOptionsType(b, o.opt_type)
            Operator.OperatorAddBuiltinOptions(b, opt)
        o_offs.append(Operator.OperatorEnd(b))

    def vec_off(start, offs):
        start(b, len(offs))
        for x in reversed(offs):
            b.PrependUOffsetTRelative(x)
        return b.EndVector()

    tv = vec_off(SubGraph.SubGraphStartTensorsVector, t_offs)
    opv = vec_off(SubGraph.SubGraphStartOperatorsVector, o_offs)
    inv = vec_i32(b, SubGraph.SubGraphStartInputsVector, inputs)
    outv = vec_i32(b, SubGraph.SubGraphStartOutputsVector, outputs)
    sgname = b.CreateString("main")
    SubGraph.SubGraphStart(b)
    SubGraph.SubGraphAddTensors(b, tv)
    SubGraph.SubGraphAddInputs(b, inv)
    SubGraph.SubGraphAddOutputs(b, outv)
    SubGraph.SubGraphAddOperators(b, opv)
    SubGraph.SubGraphAddName(b, sgname)
    sg = SubGraph.SubGraphEnd(b)
    sgv = vec_off(Model.ModelStartSubgraphsVector, [sg])
    cv = vec_off(Model.ModelStartOperatorCodesVector, code_offs)
    bv = vec_off(Model.ModelStartBuffersVector, buf_offs)
    desc = b.CreateString("scratch")
    Model.ModelStart(b)
    Model.ModelAddVersion(b, 3)
    Model.ModelAddOperatorCodes(b, cv)
    Model.ModelAddSubgraphs(b, sgv)
    Model.ModelAddDescription(b, desc)
    Model.ModelAddBuffers(b, bv)
    m = Model.ModelEnd(b)
    b.Finish(m, b"TFL3")
    return bytes(b.Output())


def conv_opts(pad=0, sw=1, sh=1, act=0, dw=1, dh=1):
    def f(b):
        Conv2DOptions.Conv2DOptionsStart(b)
        Conv2DOptions.Conv2DOptionsAddPadding(b, pad)
        Conv2DOptions.Conv2DOptionsAddStrideW(b, sw)
        Conv2DOptions.Conv2DOptionsAddStrideH(b, sh)
        Conv2DOptions.Conv2DOptionsAddFusedActivationFunction(b, act)
        Conv2DOptions.Conv2DOptionsAddDilationWFactor(b, dw)
        Conv2DOptions.Conv2DOptionsAddDilationHFactor(b, dh)
        return Conv2DOptions.Conv2DOptionsEnd(b)
    return f


def simple_conv_model(H=16, W=16, C=8, OC=16, k=3, seed=0, n=2):
    rng = np.random.default_rng(seed)
    tensors = [T("input", [1, H, W, C], np.int8, 0.05, -3)]
    ops = []
    cur, cc = 0, C
    for i in range(n):
        w = rng.integers(-127, 128, size=(OC, k, k, cc), dtype=np.int8)
        bias = rng.integers(-1000, 1000, size=(OC,), dtype=np.int32)
        ws = rng.uniform(0.001, 0.02, size=OC).astype(np.float32)
        tensors.append(T(f"w{i}", w.shape, np.int8, ws, np.zeros(OC, np.int64), w, qdim=0))
        tensors.append(T(f"b{i}", [OC], np.int32, ws * np.float32(0.05), np.zeros(OC, np.int64), bias))
        tensors.append(T(f"conv{i}", [1, H, W, OC], np.int8, 0.05, 5))
        ops.append(O(BO.CONV_2D, [cur, len(tensors) - 3, len(tensors) - 2], [len(tensors) - 1], BOpt.Conv2DOptions,
                     conv_opts(pad=0, act=1), version=3))
        cur, cc = len(tensors) - 1, OC
    return build(tensors, ops, [0], [cur])


if __name__ == "__main__":
    import sys
    open(sys.argv[1], "wb").write(simple_conv_model())

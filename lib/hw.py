"""Pinned hardware facts (trusted base, DESIGN.md §4) - never imported from the repository."""

# name -> product (0=U55, 1=U65), macs/cycle/core, cores, shram banks (1 KiB each) per core, ofm/ifm micro-block (h,w,d)
ACCELS = {
    "ethos-u55-32": dict(product=0, macs=32, cores=1, banks=16, ofm_ub=(1, 1, 4), ifm_ub=(1, 1, 8), enum="Ethos_U55_32"),
    "ethos-u55-64": dict(product=0, macs=64, cores=1, banks=16, ofm_ub=(1, 1, 8), ifm_ub=(1, 1, 8), enum="Ethos_U55_64"),
    "ethos-u55-128": dict(product=0, macs=128, cores=1, banks=24, ofm_ub=(1, 2, 8), ifm_ub=(1, 2, 8), enum="Ethos_U55_128"),
    "ethos-u55-256": dict(product=0, macs=256, cores=1, banks=48, ofm_ub=(2, 2, 8), ifm_ub=(2, 2, 8), enum="Ethos_U55_256"),
    "ethos-u65-256": dict(product=1, macs=256, cores=1, banks=48, ofm_ub=(2, 2, 8), ifm_ub=(2, 2, 8), enum="Ethos_U65_256"),
    "ethos-u65-512": dict(product=1, macs=256, cores=2, banks=48, ofm_ub=(2, 2, 8), ifm_ub=(2, 2, 8), enum="Ethos_U65_512"),
}
ACCEL_NAMES = list(ACCELS)
ARCH_VERSION = (1, 0, 6)  # major, minor, patch
FOURCC_COP1 = 0x31504F43
DA_CONFIG, DA_CMDSTREAM, DA_NOP = 1, 2, 5
MAX_STREAM_WORDS = 1 << 24

# SHRAM bank granules per accelerator: index = element kind (IFM8, IFM16, IFM8 elementwise, IFM16 elementwise, IFM32, Acc16, Acc32, Acc40)
GRANULES = {
    "ethos-u55-32": [2, 2, 2, 2, 4, 4, 4, 4],
    "ethos-u55-64": [2, 2, 2, 2, 4, 4, 4, 8],
    "ethos-u55-128": [4, 4, 4, 4, 8, 4, 8, 12],
    "ethos-u55-256": [8, 8, 8, 8, 16, 8, 16, 20],
    "ethos-u65-256": [8, 8, 8, 8, 16, 8, 16, 20],
    "ethos-u65-512": [8, 8, 8, 8, 16, 8, 16, 20],
}
G_IFM = {8: 0, 16: 1, 32: 4}
G_IFM_EW = {8: 2, 16: 3, 32: 4}
G_ACC = {16: 5, 32: 6, 40: 7}
OFM_BLOCK_MAX = (32, 64, 128)  # h, w, d
SHRAM_BANK_BYTES = 1024
SHRAM_OUTPUT_BANKS = 2  # banks 0-1 are the output buffer; the IFM buffer starts at bank 2
SUBKERNEL_MAX = 8


def lut_start_bank(accel, uses_lut):
    """first bank of the lookup-table area: the last two banks are always reserved on 24/48-bank configurations, and taken when a LUT is used on 16-bank ones"""
    banks = ACCELS[accel]["banks"]
    return banks - (2 if (banks > 16 or uses_lut) else 0)

"""Pinned hardware facts (trusted base, DESIGN.md §4) - never imported from the repository."""

# name -> product (0=U55, 1=U65), macs/cycle/core, cores, shram banks (1 KiB each) per core, ofm/ifm micro-block (h,w,d)
ACCELS = {
    "ethos-u55-32": dict(product=0, macs=32, cores=1, banks=16, ofm_ub=(1, 1, 4), ifm_ub=(1, 1, 8), enum="Ethos_U55_32"),
    "ethos-u55-64": dict(product=0, macs=64, cores=1, banks=16, ofm_ub=(1, 1, 8), ifm_ub=(1, 1, 8), enum="Ethos_U55_64"),
    "ethos-u55-128": dict(product=0, macs=128, cores=1, banks=24, ofm_ub=(2, 1, 8), ifm_ub=(2, 1, 8), enum="Ethos_U55_128"),
    "ethos-u55-256": dict(product=0, macs=256, cores=1, banks=48, ofm_ub=(2, 2, 8), ifm_ub=(2, 2, 8), enum="Ethos_U55_256"),
    "ethos-u65-256": dict(product=1, macs=256, cores=1, banks=48, ofm_ub=(2, 2, 8), ifm_ub=(2, 2, 8), enum="Ethos_U65_256"),
    "ethos-u65-512": dict(product=1, macs=256, cores=2, banks=48, ofm_ub=(2, 2, 8), ifm_ub=(2, 2, 8), enum="Ethos_U65_512"),
}
ACCEL_NAMES = list(ACCELS)
ARCH_VERSION = (1, 0, 6)  # major, minor, patch
FOURCC_COP1 = 0x31504F43
DA_CONFIG, DA_CMDSTREAM, DA_NOP = 1, 2, 5
MAX_STREAM_WORDS = 1 << 24

"""the compiled artefact, parsed without Vela: ethos-u operators, their command streams, regions and the arena plan"""
import numpy as np

import csdec
import hw
import payload
import vmodel


class ArtefactError(Exception):
    pass


class NpuOp:
    """one 'ethos-u' custom operator of the output model"""

    def __init__(self, model, sg, index, op):
        T = sg["tensors"]
        self.index = index
        self.op = op
        if len(op["inputs"]) < 4:
            raise ArtefactError("ethos-u operator %d has %d inputs (command_stream, flash, scratch, scratch_fast expected first)" % (index, len(op["inputs"])))
        self.cs_t, self.flash_t, self.scratch_t, self.fast_t = [T[i] for i in op["inputs"][:4]]
        self.cs_i, self.flash_i, self.scratch_i, self.fast_i = op["inputs"][:4]
        self.inputs = op["inputs"][4:]
        self.outputs = op["outputs"]
        if self.cs_t["data"] is None:
            raise ArtefactError("command_stream tensor has no data")
        self.payload = self.cs_t["data"]
        self.flash = self.flash_t["data"] or b""
        self._cmds = None
        self.cmd_bytes = None
        self.info = None

    def parse_payload(self, accel):
        self.info, self.cmd_bytes = payload.check_payload(self.payload, accel)
        return self.info

    def cmds(self):
        if self._cmds is None:
            if self.cmd_bytes is None:
                info = payload.parse_payload(self.payload)
                self.cmd_bytes = self.payload[info["cmd_offset_bytes"]:]
            self._cmds = csdec.decode_words(csdec.words_from_bytes(self.cmd_bytes))
        return self._cmds


class Artefact:
    def __init__(self, data, accel):
        self.data = data
        self.accel = accel
        self.model = vmodel.load(data)
        if not self.model["subgraphs"]:
            raise ArtefactError("no subgraph in output model")
        self.sg = self.model["subgraphs"][0]
        self.tensors = self.sg["tensors"]
        self.alloc = vmodel.offline_allocation(self.model)
        self.npu_ops = [NpuOp(self.model, self.sg, i, o) for i, o in enumerate(self.sg["ops"]) if o["code"] == "CUSTOM" and o["custom_code"] == "ethos-u"]

    def offset(self, tidx):
        if self.alloc is None:
            return None
        offs = self.alloc["offsets"]
        return offs[tidx] if tidx < len(offs) else None

    def nbytes(self, tidx):
        return vmodel.tensor_nbytes(self.tensors[tidx])

    def arena_size(self):
        """max(offset + size) over tensors placed in the arena (offset != -1)"""
        m = 0
        if self.alloc is None:
            return 0
        for i, t in enumerate(self.tensors):
            o = self.offset(i)
            if o is not None and o >= 0 and t["data"] is None:
                m = max(m, o + self.nbytes(i))
        return m

    def region_extents(self, nop):
        """published extent in bytes of every region the stream of `nop` may address"""
        ext = {0: len(nop.flash), 1: self.nbytes(nop.scratch_i), 2: self.nbytes(nop.fast_i), csdec.SHRAM_REGION: hw.ACCELS[self.accel]["banks"] * 1024}
        return ext

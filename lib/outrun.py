"""executes a Vela output model: CPU-resident operators with the reference kernels (tflinterp), every ethos-u operator
with npusim over the bytes of the file (DESIGN.md C01 oracle).  All non-constant tensors that the OfflineMemoryAllocation
metadata places in the arena live there for the whole inference, exactly as the runtime would hold them."""
import numpy as np

import csdec
import hw
import npusim
import tflinterp
import vmodel
from artefact import Artefact


class RunError(Exception):
    """the output model cannot be executed as published (missing offsets, overlapping definitions ...)"""


def np_dtype(t):
    dt = vmodel.NP_DTYPES.get(t["dtype"])
    if dt is None:
        raise tflinterp.Unsupported("tensor type %s" % t["dtype"])
    return np.dtype(dt)


class OutputRunner:
    def __init__(self, art: Artefact, fill=0xCD, on_npu_op=None, mul_mode=0):
        self.art = art
        self.T = art.tensors
        self.fill = fill
        self.on_npu_op = on_npu_op
        self.interp = tflinterp.Interp(art.model, mul_mode)
        size = max([art.arena_size()] + [art.nbytes(n.scratch_i) for n in art.npu_ops] + [1])
        self.arena = bytearray([fill]) * size
        fast = max([art.nbytes(n.fast_i) for n in art.npu_ops] + [1])
        self.fast = bytearray([fill]) * fast
        self.shram = bytearray([fill]) * (hw.ACCELS[art.accel]["banks"] * 1024)
        self.values = {}

    def in_arena(self, i):
        o = self.art.offset(i)
        return o is not None and o >= 0 and self.T[i]["data"] is None

    def put(self, i, arr):
        t = self.T[i]
        arr = np.ascontiguousarray(np.asarray(arr).astype(np_dtype(t)))
        if self.in_arena(i):
            o = self.art.offset(i)
            b = arr.tobytes()
            if o + len(b) > len(self.arena):
                raise RunError("tensor %d (%s) does not fit the arena" % (i, t["name"]))
            self.arena[o: o + len(b)] = b
        else:
            self.values[i] = arr

    def get(self, i):
        t = self.T[i]
        if t["data"] is not None:
            return vmodel.tensor_array(t)
        if self.in_arena(i):
            o = self.art.offset(i)
            n = self.art.nbytes(i)
            return np.frombuffer(bytes(self.arena[o: o + n]), np_dtype(t)).reshape(t["shape"])
        if i in self.values:
            return self.values[i]
        raise RunError("tensor %d (%s) is read before anything defined it" % (i, t["name"]))

    def run(self, inputs):
        """inputs: list of arrays in subgraph input order -> list of output arrays"""
        sg = self.art.sg
        for i, a in zip(sg["inputs"], inputs):
            self.put(i, a)
        nops = {n.index: n for n in self.art.npu_ops}
        for oi, o in enumerate(sg["ops"]):
            if oi in nops:
                n = nops[oi]
                mem = {0: n.flash, 1: self.arena, 2: self.fast, csdec.SHRAM_REGION: self.shram}
                for i in n.inputs:
                    if not self.in_arena(i) and self.T[i]["data"] is None:
                        raise RunError("ethos-u input tensor %d (%s) has no arena offset" % (i, self.T[i]["name"]))
                for i in n.outputs:
                    if not self.in_arena(i):
                        raise RunError("ethos-u output tensor %d (%s) has no arena offset" % (i, self.T[i]["name"]))
                npusim.run_npu_op(n, self.art.accel, mem, trace=self.on_npu_op)
                continue
            vals = {i: self.get(i) for i in o["inputs"] if i >= 0 and (self.T[i]["data"] is not None or self.in_arena(i) or i in self.values)}
            outs = self.interp.run_op(o, vals)
            for t, v in zip(o["outputs"], outs):
                self.put(t, v)
        return [self.get(i) for i in sg["outputs"]]

"""import environment for repository code: the current working tree of /repo with a freshly built codec."""
import os
import sys

import extbuild

REPO = extbuild.REPO
_done = False


def init():
    global _done
    if _done:
        return
    if REPO not in sys.path:
        sys.path.insert(0, REPO)
    os.environ.setdefault("ETHOSU_VELA_VERIF", "1")
    try:
        extbuild.preload_codec(True)
    except extbuild.BuildError:
        raise
    import ethosu.vela  # noqa: F401

    src = os.path.realpath(os.path.dirname(ethosu.vela.__file__))
    if not src.startswith(os.path.realpath(REPO)):
        raise RuntimeError("ethosu.vela imported from %s, not from %s" % (src, REPO))
    _done = True

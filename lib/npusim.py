"""E-sim: executes the Ethos-U command streams of an output model over byte-accurate memory (DESIGN.md §4 H2-H6).

run_npu_op(nop, accel, mem) executes every decoded operation of one ethos-u operator in program order on
mem = {0: flash bytes, 1: arena bytearray, 2: fast scratch bytearray, 0x103: SHRAM bytearray}.
Anything the model does not cover raises Unmodelled (the case is counted inconclusive, never a violation).
Optional tracing (`trace`) records, per operation, the byte intervals read and written (used by C03).
"""
import numpy as np

import csdec
import extbuild
import footprint as fpm
import hw
import wref
from tflinterp import vec_srdhm, vec_rdbp

I64 = np.int64
BIGCLAMP = 1 << 60  # results beyond the 32-bit datapath saturate; the activation clamp that follows makes the exact bound immaterial


# H6 leaves two admissible readings of the 32-bit operand scaling of ADD/SUB: 2 = pre-shift then double-rounding scaler (the structure of the
# reference kernel), 1 = single rounding of the product.  Callers that compare against a reference accept either (see props/c01.py).
OPERAND_SCALING = 2
# 32-bit feature maps (MEAN's accumulated sum and the multiplication that scales it) are modelled under the reading that a 32-bit OFM is the scaled accumulator
# itself - no zero point, no 16-bit activation clamp - and that a 32-bit IFM is multiplied as it is.  Adopted by the bring-up rule of DESIGN.md H5: 240 generated
# MEAN networks agreed with the reference under this reading and none under the alternative (zero point and clamp applied).  Other 32-bit operations stay unmodelled.
MODEL_32BIT = True


class Unmodelled(Exception):
    pass


class SimError(Exception):
    """the stream does something impossible (e.g. addresses outside the memory given) - reported by the caller"""


def _dtype(bits, signed):
    return {(8, 0): "u1", (8, 1): "i1", (16, 0): "<u2", (16, 1): "<i2", (32, 1): "<i4", (32, 0): "<u4"}[(bits, signed)]


def fm_addresses(fm, h, w, d):
    """int64 array [h, w, d] of byte addresses of every element of a decoded feature map"""
    esz = fm["bits"] // 8
    ys, xs, cs = np.arange(h, dtype=I64), np.arange(w, dtype=I64), np.arange(d, dtype=I64)
    h0, h1, w0 = fm["height0"], fm["height1"], fm["width0"]
    Y, X = np.meshgrid(ys, xs, indexing="ij")
    right = X >= w0
    hsplit = np.where(right, h1, h0)
    lower = Y >= hsplit
    tile = right.astype(I64) + 2 * lower.astype(I64)
    base = np.asarray(fm["base"], I64)[tile]
    yy = Y - np.where(lower, hsplit, 0)
    xx = X - np.where(right, w0, 0)
    if fm["nhcwb16"]:
        a2 = base + yy * fm["stride_y"] + xx * 16 * esz
        ca = (cs // 16) * fm["stride_c"] + (cs % 16) * esz
    else:
        a2 = base + yy * fm["stride_y"] + xx * fm["stride_x"]
        ca = cs * esz
    return a2[:, :, None] + ca[None, None, :]


def gather(mem, region, addr, bits, signed):
    m = mem.get(region)
    if m is None:
        raise SimError("region %s not present" % region)
    buf = np.frombuffer(m, np.uint8)
    esz = bits // 8
    if addr.size and (addr.min() < 0 or addr.max() + esz > len(buf)):
        raise SimError("read outside region %s: [%d, %d) of %d bytes" % (region, addr.min(), addr.max() + esz, len(buf)))
    v = np.zeros(addr.shape, I64)
    for k in range(esz):
        v |= buf[addr + k].astype(I64) << (8 * k)
    if signed:
        v = np.where(v >= (1 << (bits - 1)), v - (1 << bits), v)
    return v


def scatter(mem, region, addr, values, bits):
    m = mem.get(region)
    if m is None:
        raise SimError("region %s not present" % region)
    buf = np.frombuffer(m, np.uint8)
    esz = bits // 8
    if addr.size and (addr.min() < 0 or addr.max() + esz > len(buf)):
        raise SimError("write outside region %s: [%d, %d) of %d bytes" % (region, addr.min(), addr.max() + esz, len(buf)))
    v = values.astype(I64) & ((1 << bits) - 1)
    for k in range(esz):
        buf[addr + k] = ((v >> (8 * k)) & 0xFF).astype(np.uint8)


def scale_round(acc, scale, shift, mode):
    """acc int64 array; scale/shift scalars or arrays (broadcast); mode 0 TFL, 1 TRUNCATE, 2 NATURAL"""
    scale = np.asarray(scale, I64)
    shift = np.asarray(shift, I64)
    big = np.abs(acc).max(initial=0) >= (1 << 31) or scale.max(initial=0) >= (1 << 32)
    if mode == 0:
        if big:
            # TFLite double rounding is defined on int32 operands; beyond that use exact Python integers
            out = np.empty(acc.shape, object)
            sc = np.broadcast_to(scale, acc.shape)
            sh = np.broadcast_to(shift, acc.shape)
            import tflref

            flat_a, flat_s, flat_h = acc.ravel(), sc.ravel(), sh.ravel()
            res = [tflref.multiply_by_quantized_multiplier(int(a), int(s), 31 - int(h)) if int(s) < (1 << 31) else _tfl_wide(int(a), int(s), int(h)) for a, s, h in zip(flat_a, flat_s, flat_h)]
            return np.asarray([max(-BIGCLAMP, min(BIGCLAMP, v)) for v in res], I64).reshape(acc.shape)
        s = 31 - shift
        left = np.maximum(s, 0)
        right = np.maximum(-s, 0)
        return vec_rdbp(vec_srdhm(acc * (I64(1) << left), scale), right)
    if big:
        flat = []
        sc = np.broadcast_to(scale, acc.shape).ravel()
        sh = np.broadcast_to(shift, acc.shape).ravel()
        for a, s, h in zip(acc.ravel(), sc, sh):
            a, s, h = int(a), int(s), int(h)
            if mode == 2:
                flat.append((a * s + ((1 << (h - 1)) if h > 0 else 0)) >> h)
            else:
                v = (abs(a) * s) >> h
                flat.append(v if a >= 0 else -v)
        return np.asarray([max(-BIGCLAMP, min(BIGCLAMP, v)) for v in flat], I64).reshape(acc.shape)
    if mode == 2:
        return (acc * scale + np.where(shift > 0, I64(1) << np.maximum(shift - 1, 0), 0)) >> shift
    v = (np.abs(acc) * scale) >> shift
    return np.where(acc >= 0, v, -v)


def shift_round(acc, shift, mode):
    """acc * 2^-shift for a unit multiplier: mode 0 (TFL) ties away from zero, 1 truncate toward zero, 2 (NATURAL) ties up; exact for |acc| < 2^62"""
    shift = int(shift)
    if shift == 0:
        return acc
    if np.abs(acc).max(initial=0) >= (1 << 62):
        raise Unmodelled("product beyond 62 bits")
    half = I64(1) << (shift - 1)
    if mode == 2:
        return (acc + half) >> shift
    if mode == 1:
        return np.where(acc >= 0, acc >> shift, -((-acc) >> shift))
    return np.where(acc >= 0, (acc + half) >> shift, -((-acc + half) >> shift))


def shift_round_arr(a, b, mode):
    """element-wise a >> b with per-element shift counts (SHR)"""
    half = np.where(b > 0, I64(1) << np.maximum(b - 1, 0), 0)
    if mode == 2:
        return (a + half) >> b
    if mode == 1:
        return np.where(a >= 0, a >> b, -((-a) >> b))
    return np.where(a >= 0, (a + half) >> b, -((-a + half) >> b))


def _tfl_wide(a, s, h):
    import tflref

    sft = 31 - h
    left = sft if sft > 0 else 0
    right = -sft if sft < 0 else 0
    ab = a * (1 << left) * s
    nudge = (1 << 30) if ab >= 0 else 1 - (1 << 30)
    x = ab + nudge
    q = abs(x) >> 31
    q = q if x >= 0 else -q
    return tflref.rounding_divide_by_pot(q, right)


def read_ifm(mem, f, key="ifm", shape=None):
    fm = f[key]
    if shape is None:
        ih, iw = fpm.ifm_extent(f)
        shape = (ih, iw, f["ifm"]["depth"])
    if shape[0] <= 0 or shape[1] <= 0:
        raise SimError("operation derives an empty IFM extent %s" % (shape,))
    addr = fm_addresses(fm, *shape)
    return gather(mem, fm["region"], addr, fm["bits"], fm["signed"]) - fm["zero_point"], addr


def upscale(x, mode, target_h, target_w):
    """x [h,w,c] zero-point-free values.  mode 1 = NEAREST (repeat), 2 = TRANSPOSE (zero insertion)"""
    if mode == 0:
        return x
    h, w, c = x.shape
    if mode == 1:
        y = np.repeat(np.repeat(x, 2, axis=0), 2, axis=1)
    else:
        y = np.zeros((2 * h, 2 * w, c), I64)
        y[::2, ::2, :] = x
    return y[:target_h, :target_w, :]


def window_input(mem, f):
    """padded, up-scaled IFM plane P [(oh-1)*sy + dkh, (ow-1)*sx + dkw, depth] with zeros where the hardware pads; plus validity mask"""
    k, p, o = f["kernel"], f["pad"], f["ofm"]
    x, addr = read_ifm(mem, f)
    up = f["upscale"]
    full_h = (o["height"] - 1) * k["stride_y"] + k["dilated_h"]
    full_w = (o["width"] - 1) * k["stride_x"] + k["dilated_w"]
    inner_h, inner_w = full_h - p["top"] - p["bottom"], full_w - p["left"] - p["right"]
    if inner_h <= 0 or inner_w <= 0:
        raise SimError("pads exceed the window extent")
    xu = upscale(x, up, inner_h, inner_w)
    if xu.shape[0] != inner_h or xu.shape[1] != inner_w:
        raise SimError("IFM extent mismatch")
    P = np.zeros((full_h, full_w, x.shape[2]), I64)
    V = np.zeros((full_h, full_w), bool)
    P[p["top"]: p["top"] + inner_h, p["left"]: p["left"] + inner_w, :] = xu
    V[p["top"]: p["top"] + inner_h, p["left"]: p["left"] + inner_w] = True
    return P, V, addr


def decode_weight_volume(mem, f, accel):
    A = hw.ACCELS[accel]
    ncores = A["cores"]
    k = f["kernel"]
    od, idp = f["ofm"]["depth"], f["ifm"]["depth"]
    dw = f["kind"] == "depthwise"
    kh, kw = k["height"], k["width"]
    if kh is None or kw is None:
        raise SimError("kernel size not a multiple of the dilation")
    W = np.zeros((od, kh, kw, 1 if dw else idp), I64)
    bias = np.zeros(od, I64)
    scl = np.zeros(od, I64)
    shf = np.zeros(od, I64)
    wreg, sreg = f["weights"]["region"], f["scales"]["region"]
    blk_d = f["block"]["depth"]
    reads = []
    for core in range(ncores):
        wb, wl = f["weights"]["base"][core] or 0, f["weights"]["length"][core] or 0
        sb, sl = f["scales"]["base"][core] or 0, f["scales"]["length"][core] or 0
        chans = list(range(core, od, ncores))
        if not wl or not chans:
            continue
        m = mem.get(wreg)
        if m is None or wb + wl > len(m):
            raise SimError("weight stream [%d,%d) outside region %s" % (wb, wb + wl, wreg))
        reads.append((wreg, wb, wb + wl))
        flat = extbuild.ref_decoder()(bytes(m[wb: wb + wl]))
        cbd = (blk_d + ncores - 1 - core) // ncores
        vol, problem = wref.inverse_traversal(flat, (len(chans), kh, kw, 1 if dw else idp), cbd, dw, bool(k["part_kernel"]), f["ifm"]["bits"], A["ifm_ub"][2], A["ofm_ub"][2],
                                              8 // k["dilation_y"], 8 // k["dilation_x"])
        if problem and "padding" not in problem and "after the end" not in problem:
            raise SimError("weight stream of core %d: %s" % (core, problem))
        W[chans] = vol
        ms = mem.get(sreg)
        if ms is None or sb + 10 * len(chans) > len(ms):
            raise SimError("scale stream outside region %s" % sreg)
        reads.append((sreg, sb, sb + sl))
        rec = np.frombuffer(bytes(ms[sb: sb + 10 * len(chans)]), np.uint8).reshape(-1, 10).astype(I64)
        b = rec[:, 0] | (rec[:, 1] << 8) | (rec[:, 2] << 16) | (rec[:, 3] << 24) | (rec[:, 4] << 32)
        b = np.where(b >= (1 << 39), b - (1 << 40), b)
        bias[chans] = b
        scl[chans] = rec[:, 5] | (rec[:, 6] << 8) | (rec[:, 7] << 16) | (rec[:, 8] << 24)
        shf[chans] = rec[:, 9] & 0x3F
    return W, bias, scl, shf, reads


def apply_activation(v, f, mem, accel):
    a = f["activation"]
    v = np.clip(v, a["min"], a["max"])
    if a["lut_index"] is not None and f["ofm"]["bits"] == 32 and f["ifm"]["bits"] == 8:
        # 8-bit index, 32-bit entries (softmax's exp table, 1 KB = four 256-byte slots): the value that would have been the 8-bit result (zero point added, clamped to the
        # activation range) selects the entry; the index is biased by 128 when the activation range is signed.  H-model adopted by the bring-up rule (DESIGN 8.2).
        base = hw.lut_start_bank(accel, True) * 1024 + a["lut_index"] * 256
        sh = np.frombuffer(mem[csdec.SHRAM_REGION], np.uint8)
        if base + 1024 > len(sh):
            raise SimError("32-bit table at SHRAM offset %d runs past the end of SHRAM" % base)
        table = sh[base: base + 1024].astype(I64).reshape(256, 4)
        table = table[:, 0] | (table[:, 1] << 8) | (table[:, 2] << 16) | (table[:, 3] << 24)
        table = np.where(table >= (1 << 31), table - (1 << 32), table)
        idx = (v + 128) if a["min"] < 0 else v
        return table[np.clip(idx, 0, 255)]
    if a["lut_index"] is not None and f["ofm"]["bits"] == 16 and f["ifm"]["bits"] == 16:
        # 16-bit table: 512 entries of (base: low 16 bits, slope: high 16 bits), 2 KB = eight 256-byte slots.  The upper nine bits of the (offset binary) value select the entry,
        # the lower seven interpolate: base + ((slope * fraction + 64) >> 7) - the lookup of the reference kernels (LUTLookup).  H-model adopted by the bring-up rule (DESIGN 8.2).
        base_addr = hw.lut_start_bank(accel, True) * 1024 + a["lut_index"] * 256
        sh = np.frombuffer(mem[csdec.SHRAM_REGION], np.uint8)
        if base_addr + 2048 > len(sh):
            raise SimError("16-bit table at SHRAM offset %d runs past the end of SHRAM" % base_addr)
        raw = sh[base_addr: base_addr + 2048].astype(I64).reshape(512, 4)
        lo16 = raw[:, 0] | (raw[:, 1] << 8)
        hi16 = raw[:, 2] | (raw[:, 3] << 8)
        tbase = np.where(lo16 >= 0x8000, lo16 - 0x10000, lo16)
        tslope = np.where(hi16 >= 0x8000, hi16 - 0x10000, hi16)
        if not f["ofm"]["signed"]:
            raise Unmodelled("16-bit table with an unsigned OFM")
        idx = (v + 32768) >> 7
        frac = v & 0x7F
        return np.clip(tbase[idx] + ((tslope[idx] * frac + 64) >> 7), -32768, 32767)
    if a["lut_index"] is not None:
        if f["ofm"]["bits"] != 8 or f["ifm"]["bits"] not in (8, 32):
            raise Unmodelled("16/32-bit lookup table")
        if f["ifm"]["bits"] == 8 and bool(f["ifm"]["signed"]) != bool(f["ofm"]["signed"]):
            # a table fused behind a requantisation that changes signedness: whether the index is biased by 128 follows the IFM or the OFM type is not pinned down (H6)
            raise Unmodelled("table lookup with IFM and OFM of different signedness")
        base = hw.lut_start_bank(accel, True) * 1024 + a["lut_index"] * 256
        sh = np.frombuffer(mem[csdec.SHRAM_REGION], np.uint8)
        table = sh[base: base + 256].astype(I64)
        # (a 32-bit IFM - the final SHR of a softmax with the next activation fused - cannot give the index its signedness: the table works on the 8-bit result)
        idx = (v + 128) if (f["ifm"]["signed"] if f["ifm"]["bits"] == 8 else f["ofm"]["signed"]) else v
        out = table[np.clip(idx, 0, 255)]
        if f["ofm"]["signed"]:
            out = np.where(out >= 128, out - 256, out)
        return out
    if a["type"] in (3, 4):
        raise Unmodelled("hardware tanh/sigmoid activation")
    if a["type"] != 0:
        raise Unmodelled("activation type %d" % a["type"])
    return v


def write_ofm(mem, f, values):
    o = f["ofm"]
    addr = fm_addresses(o, o["height"], o["width"], o["depth"])
    scatter(mem, o["region"], addr, values, o["bits"])
    return addr


def run_kernel_op(f, accel, mem):
    kind = f["kind"]
    o = f["ofm"]
    oh, ow, od = o["height"], o["width"], o["depth"]
    rmode = o["rounding"]
    extra_reads = []
    wide = o["bits"] == 32 or f["ifm"]["bits"] == 32
    if wide and not MODEL_32BIT:
        # whether and how zero points and scaling apply on the 32-bit paths is not pinned down by anything available here (H6)
        raise Unmodelled("32-bit feature map datapath")
    wide_ok = (kind in ("conv", "depthwise") and o["bits"] == 32 and f["ifm"]["bits"] != 32) or (kind == "elementwise" and f["mode"] == "MUL" and f["ifm"]["bits"] == 32)
    lut32 = o["bits"] == 32 and f["ifm"]["bits"] == 8 and "activation" in f and f["activation"]["lut_index"] is not None
    if kind == "elementwise" and f["mode"] in ("ADD", "SUB") and f["ifm"]["bits"] == 32 and o["bits"] == 32 and "activation" in f and f["activation"]["lut_index"] is None:
        # plain 32-bit sum/difference: unit operand scales and an output scale that is a pure shift (the lowerings of SQUARED_DIFFERENCE and SOFTMAX); anything scaled stays unmodelled
        wide_ok = f.get("ofm_scale", (1, 0))[0] == 1 and f["ifm"]["scale_mode"] == 0 and f["opa_scale"][0] == 1 and f["opb_scale"][0] == 1
    if kind == "elementwise" and f["mode"] in ("ADD", "SUB") and lut32:
        wide_ok = f.get("ofm_scale", (1, 0)) == (1, 0) and f["ifm"]["scale_mode"] == 0 and f["opa_scale"] == (1, 0) and f["opb_scale"] == (1, 0)  # 8-bit difference indexing a 32-bit table
    if kind == "elementwise" and f["mode"] in ("SHR", "SHL", "CLZ") and f["ifm"]["bits"] == 32 and (f["activation"]["lut_index"] is None or (f["mode"] == "SHR" and o["bits"] == 8)):
        wide_ok = f["ifm"]["zero_point"] == 0 and (o["bits"] == 32 or (f["mode"] == "SHR" and o["bits"] == 8))  # (a 32-bit OFM ignores its zero point register, see MODEL_32BIT)
    if kind == "pool" and f["mode"] == "REDUCE_SUM" and f["ifm"]["bits"] == 32 and o["bits"] == 32:
        wide_ok = o["global_scale"] and f["ofm_scale"] == (1, 0) and f["ifm"]["zero_point"] == 0
    if wide and not wide_ok:
        raise Unmodelled("32-bit feature map datapath (%s)" % (f.get("mode") or kind))
    ofm_zp = 0 if (o["bits"] == 32 and not lut32) else o["zero_point"]  # reading used when MODEL_32BIT: a 32-bit OFM carries the raw scaled accumulator (a table lookup works on the 8-bit value)
    if kind in ("conv", "depthwise"):
        P, V, iaddr = window_input(mem, f)
        W, bias, scl, shf, extra_reads = decode_weight_volume(mem, f, accel)
        k = f["kernel"]
        acc = np.zeros((oh, ow, od), I64)
        for ky in range(k["height"]):
            for kx in range(k["width"]):
                patch = P[ky * k["dilation_y"]: ky * k["dilation_y"] + (oh - 1) * k["stride_y"] + 1: k["stride_y"],
                          kx * k["dilation_x"]: kx * k["dilation_x"] + (ow - 1) * k["stride_x"] + 1: k["stride_x"], :]
                if kind == "depthwise":
                    acc += patch[:, :, :od] * W[:, ky, kx, 0]
                else:
                    acc += patch @ W[:, ky, kx, :].T
        acc += bias
        v = scale_round(acc, scl, shf, rmode) + ofm_zp
    elif kind == "pool":
        P, V, iaddr = window_input(mem, f)
        k = f["kernel"]
        mode = f["mode"]
        if mode == "REDUCE_SUM":
            acc = P[: (oh - 1) * k["stride_y"] + 1: k["stride_y"], : (ow - 1) * k["stride_x"] + 1: k["stride_x"], :].sum(axis=2, keepdims=True)
            if not o["global_scale"]:
                raise Unmodelled("REDUCE_SUM without global scale")
            sc, sh = f["ofm_scale"]
            v = scale_round(acc, sc, sh, rmode) + ofm_zp
        elif mode == "MAX":
            Pm = np.where(V[:, :, None], P, -(1 << 40))
            out = np.full((oh, ow, P.shape[2]), -(1 << 40), I64)
            for ky in range(k["height"]):
                for kx in range(k["width"]):
                    out = np.maximum(out, Pm[ky: ky + (oh - 1) * k["stride_y"] + 1: k["stride_y"], kx: kx + (ow - 1) * k["stride_x"] + 1: k["stride_x"], :])
            v = out[:, :, :od] + o["zero_point"]
        else:
            acc = np.zeros((oh, ow, P.shape[2]), I64)
            cnt = np.zeros((oh, ow), I64)
            for ky in range(k["height"]):
                for kx in range(k["width"]):
                    acc += P[ky: ky + (oh - 1) * k["stride_y"] + 1: k["stride_y"], kx: kx + (ow - 1) * k["stride_x"] + 1: k["stride_x"], :]
                    cnt += V[ky: ky + (oh - 1) * k["stride_y"] + 1: k["stride_y"], kx: kx + (ow - 1) * k["stride_x"] + 1: k["stride_x"]]
            acc = acc[:, :, :od]
            if o["global_scale"]:
                sc, sh = f["ofm_scale"]
                v = scale_round(acc, sc, sh, rmode) + o["zero_point"]
            else:
                # average pool with padding: the hardware divides by the number of valid elements (H6: modelled as round-half-away, treated as approximate)
                c = np.maximum(cnt, 1)[:, :, None]
                v = np.where(acc >= 0, (acc + c // 2) // c, -((-acc + c // 2) // c)) + o["zero_point"]
                f["_approximate"] = True
    elif kind == "elementwise":
        mode = f["mode"]
        a, iaddr = read_ifm(mem, f, "ifm", (oh, ow, od))
        b = None
        if "broadcast" in f:
            bc = f["broadcast"]
            i2 = f["ifm2"]
            if bc["scalar"]:
                sv = i2["scalar"]
                if i2["signed"] and sv >= 0x8000:
                    sv -= 0x10000
                b = np.full((oh, ow, od), sv - i2["zero_point"], I64)
            else:
                shape2 = (1 if bc["h"] else oh, 1 if bc["w"] else ow, 1 if bc["c"] else od)
                b2, addr2 = read_ifm(mem, f, "ifm2", shape2)
                b = np.broadcast_to(b2, (oh, ow, od))
            if bc["reverse"]:
                a, b = b, a
        sc, sh = f.get("ofm_scale", (1, 0))
        if mode == "MUL":
            if f["ifm"]["bits"] == 32:
                # H-model (bring-up rule, DESIGN 8.2): a 32-bit multiplication applies only the shift of the OFM scale ("for int32 scaling is not supported": the
                # compiler multiplies by the scale as the second operand and programs the shift alone)
                sc = 1
            v = (shift_round(a * b, sh, rmode) if sc == 1 else scale_round(a * b, sc, sh, rmode)) + ofm_zp
        elif mode in ("SHR", "SHL", "CLZ"):
            # 32-bit bit operations of the SOFTMAX lowering (H-model adopted by the bring-up rule): SHR rounds as the OFM rounding mode says, SHL and CLZ are exact
            if mode == "CLZ":
                av = np.where(a < 0, a + (1 << 32), a)
                v = np.asarray([32 - int(t).bit_length() for t in av.ravel()], I64).reshape(av.shape)
            else:
                if b is None or (b < 0).any() or (b > 62).any():
                    raise Unmodelled("%s with a shift operand outside 0..62" % mode)
                if mode == "SHL":
                    v = a * (I64(1) << np.minimum(b, 31))
                    if (np.abs(a) >= (I64(1) << 31)).any():
                        raise SimError("SHL operand outside the 32-bit range")
                else:
                    v = shift_round_arr(a, b, rmode)
            v = v + (o["zero_point"] if o["bits"] != 32 else 0)
        elif mode in ("ADD", "SUB") and f["ifm"]["bits"] == 32 and o["bits"] == 32 and not lut32:
            raw = a + b if mode == "ADD" else a - b
            if sh and (raw < 0).any():
                raise Unmodelled("32-bit %s with a rounding shift of a negative sum" % mode)  # only reached by the non-negative half-sum of the softmax reciprocal
            v = shift_round(raw, sh, 2)
        elif mode in ("ADD", "SUB"):
            sm = f["ifm"]["scale_mode"]
            opa, opa_shift = f["opa_scale"]
            opb, _ = f["opb_scale"]
            bits = f["ifm"]["bits"]
            if sm == 0:
                va, vb = a * opa, b * opb
            else:
                if bits == 32:
                    raise Unmodelled("32-bit operand scaling")
                ishift = 20 if bits == 8 else 15
                # OPA/OPB name the operands after the IFM2_BROADCAST.reverse swap done above (operand A = first operand of the arithmetic)
                scale_first = sm == 1

                def scaled(x):
                    if OPERAND_SCALING == 2:
                        # the operand is pre-shifted like the unscaled one, then takes the TFL-style scaler (doubling high multiply + rounding shift)
                        s = opa_shift + ishift - 31
                        return vec_rdbp(vec_srdhm(x * (I64(1) << (ishift + max(-s, 0))), opa), max(s, 0))
                    s = 31 - opa_shift
                    return vec_rdbp(vec_srdhm(x * (I64(1) << max(s, 0)), opa), max(-s, 0))

                if scale_first:
                    va, vb = scaled(a), b * (1 << (ishift - 1))
                else:
                    va, vb = a * (1 << (ishift - 1)), scaled(b)
            raw = va + vb if mode == "ADD" else va - vb
            v = scale_round(raw, sc, sh, rmode) + o["zero_point"]
        elif mode in ("MIN", "MAX"):
            v = (np.minimum(a, b) if mode == "MIN" else np.maximum(a, b))
            v = scale_round(v, sc, sh, rmode) + o["zero_point"] if (sc, sh) != (1, 0) else v + o["zero_point"]
        elif mode == "ABS":
            v = scale_round(np.abs(a), sc, sh, rmode) + o["zero_point"]
        elif mode == "LRELU":
            # H-model (adopted by the bring-up rule, DESIGN 8.2): non-negative values pass unchanged, negative ones are multiplied by the OFM scale (= alpha)
            v = np.where(a >= 0, a, scale_round(a, sc, sh, rmode)) + o["zero_point"]
        else:
            raise Unmodelled("elementwise %s" % mode)
    else:
        raise Unmodelled(kind)
    lo, hi = (-(1 << (o["bits"] - 1)), (1 << (o["bits"] - 1)) - 1) if o["signed"] else (0, (1 << o["bits"]) - 1)
    if o["bits"] != 32 or lut32:  # (MODEL_32BIT reading: the 16-bit clamp registers do not apply to a 32-bit OFM - unless a table lookup works on the 8-bit value)
        v = apply_activation(v, f, mem, accel)
    v = np.clip(v, lo, hi)
    write_ofm(mem, f, v)


def run_npu_op(nop, accel, mem, trace=None):
    for c in nop.cmds():
        if c.kind in ("kernel_wait", "dma_wait", "stop", "irq", "pmu"):
            continue
        f = csdec.fields(c)
        if trace is not None:
            trace(c, f)
        if c.kind == "dma":
            sr = f["src_region"]
            dr = csdec.SHRAM_REGION if f["dst_region"] & 0x100 else f["dst_region"]
            src, dst = mem.get(sr), mem.get(dr)
            if src is None or dst is None or f["src"] + f["length"] > len(src) or f["dst"] + f["length"] > len(dst):
                raise SimError("DMA [%d:%d)->[%d:%d) outside its regions" % (f["src"], f["src"] + f["length"], f["dst"], f["dst"] + f["length"]))
            dst[f["dst"]: f["dst"] + f["length"]] = bytes(src[f["src"]: f["src"] + f["length"]])
            continue
        run_kernel_op(f, accel, mem)

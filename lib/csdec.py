"""E-dec: independent decoder for Ethos-U register command streams (DESIGN.md §2.4, H1, Appendix A).

decode_words(words) walks the stream with a register file that persists across operations (that is how elided
writes are reconstructed) and returns a list of Cmd objects for every NPU_OP_* word; each carries a snapshot of the
registers, which `fields(cmd)` turns into decoded bit fields.  Opcode numbers come from the pinned copy of the
hardware register description (vendor/npu_regs.py); bit positions are written out here.
"""
import struct

from npu_regs import cmd0 as _cmd0, cmd1 as _cmd1

CMD0 = {e.value: e.name for e in _cmd0}
CMD1 = {e.value: e.name for e in _cmd1}

ADDR40 = set()
for _n in CMD1.values():
    if _n.endswith(("_BASE0", "_BASE1", "_BASE2", "_BASE3", "_BASE", "_STRIDE_X", "_STRIDE_Y", "_STRIDE_C", "DMA0_SRC", "DMA0_DST", "DMA0_LEN")):
        ADDR40.add(_n)
SCALE_REGS = {"NPU_SET_OFM_SCALE", "NPU_SET_OPA_SCALE", "NPU_SET_OPB_SCALE"}
OP_KINDS = {"NPU_OP_CONV": "conv", "NPU_OP_DEPTHWISE": "depthwise", "NPU_OP_POOL": "pool", "NPU_OP_ELEMENTWISE": "elementwise", "NPU_OP_DMA_START": "dma",
            "NPU_OP_KERNEL_WAIT": "kernel_wait", "NPU_OP_DMA_WAIT": "dma_wait", "NPU_OP_STOP": "stop", "NPU_OP_IRQ": "irq", "NPU_OP_PMU_MASK": "pmu"}
ELEMENTWISE_MODES = ["MUL", "ADD", "SUB", "MIN", "MAX", "LRELU", "ABS", "CLZ", "SHR", "SHL"]
POOL_MODES = ["MAX", "AVERAGE", "REDUCE_SUM"]
SHRAM_REGION = 0x103


class DecodeError(Exception):
    pass


class Cmd:
    __slots__ = ("kind", "name", "param", "regs", "word_index", "writes_since_prev", "written_at", "index")

    def __init__(self, kind, name, param, regs, word_index, writes, written_at, index):
        self.kind, self.name, self.param, self.regs, self.word_index = kind, name, param, regs, word_index
        self.writes_since_prev = writes  # register names written since the previous NPU_OP_* word
        self.written_at = written_at  # register name -> index of the op during whose preparation it was last written
        self.index = index

    def __repr__(self):
        return "<%s #%d param=%d>" % (self.kind, self.index, self.param)


def decode_words(words):
    """-> (list of Cmd, stats).  raises DecodeError on malformed streams"""
    regs = {}
    written_at = {}
    out = []
    writes = []
    i = 0
    n = len(words)
    nops = 0
    while i < n:
        w = words[i]
        code = w & 0x3FF
        mode = (w >> 14) & 3
        if (w >> 10) & 0xF:
            raise DecodeError("reserved bits 10-13 set in command word %d (0x%08x)" % (i, w))
        param = (w >> 16) & 0xFFFF
        if mode == 1:
            if i + 1 >= n:
                raise DecodeError("cmd1 at word %d has no payload word" % i)
            name = CMD1.get(code)
            if name is None:
                raise DecodeError("unknown cmd1 opcode 0x%03x at word %d" % (code, i))
            payload = words[i + 1]
            if name in ADDR40:
                if param > 0xFF:
                    raise DecodeError("%s: address bits above 40 set (param 0x%x)" % (name, param))
                val = (param << 32) | payload
            elif name in SCALE_REGS:
                val = (payload, param)
            else:
                if param:
                    raise DecodeError("%s: unexpected parameter 0x%x" % (name, param))
                val = payload
            regs[name] = val
            written_at[name] = len(out)
            writes.append(name)
            i += 2
        elif mode == 0:
            name = CMD0.get(code)
            if name is None:
                raise DecodeError("unknown cmd0 opcode 0x%03x at word %d" % (code, i))
            if name.startswith("NPU_OP_"):
                out.append(Cmd(OP_KINDS[name], name, param, dict(regs), i, writes, dict(written_at), len(out)))
                writes = []
            else:
                regs[name] = param
                written_at[name] = len(out)
                writes.append(name)
            i += 1
        else:
            raise DecodeError("payload mode %d at word %d" % (mode, i))
    return out


def words_from_bytes(data):
    if len(data) % 4:
        raise DecodeError("stream length %d not a multiple of 4" % len(data))
    return list(struct.unpack("<%dI" % (len(data) // 4), data))


def s16(v):
    return v - 65536 if v & 0x8000 else v


def _get(r, name, cmd=None):
    if name not in r:
        raise DecodeError("operation uses register %s which was never written" % name)
    return r[name]


def fm_fields(r, p):
    """decoded feature map registers for prefix p in IFM/IFM2/OFM"""
    prec = _get(r, "NPU_SET_%s_PRECISION" % p)
    if p == "OFM":
        f = dict(signed=prec & 1, bits=8 << ((prec >> 1) & 3), nhcwb16=(prec >> 6) & 1, global_scale=(prec >> 8) & 1, rounding=(prec >> 14) & 3)
        reserved = prec & ~(0x1 | 0x6 | 0x40 | 0x100 | 0xC000)
    else:
        f = dict(signed=prec & 1, bits=8 << ((prec >> 2) & 3), nhcwb16=(prec >> 6) & 1, scale_mode=(prec >> 8) & 3)
        reserved = prec & ~(0x1 | 0xC | 0x40 | 0x300)
    if reserved:
        raise DecodeError("%s_PRECISION has reserved bits set: 0x%x" % (p, prec))
    f.update(region=_get(r, "NPU_SET_%s_REGION" % p), base=[_get(r, "NPU_SET_%s_BASE%d" % (p, k)) for k in range(4)],
             height0=_get(r, "NPU_SET_%s_HEIGHT0_M1" % p) + 1, height1=_get(r, "NPU_SET_%s_HEIGHT1_M1" % p) + 1, width0=_get(r, "NPU_SET_%s_WIDTH0_M1" % p) + 1,
             stride_x=_get(r, "NPU_SET_%s_STRIDE_X" % p), stride_y=_get(r, "NPU_SET_%s_STRIDE_Y" % p), stride_c=_get(r, "NPU_SET_%s_STRIDE_C" % p),
             zero_point=s16(_get(r, "NPU_SET_%s_ZERO_POINT" % p)))
    return f


def kernel_fields(r):
    ks = _get(r, "NPU_SET_KERNEL_STRIDE")
    if ks & ~0xFDF:
        raise DecodeError("KERNEL_STRIDE has reserved bits set: 0x%x" % ks)
    sx = 1 + (ks & 1) + 2 * ((ks >> 6) & 7)
    sy = 1 + ((ks >> 1) & 1) + 2 * ((ks >> 9) & 7)
    dx, dy = 1 + ((ks >> 3) & 1), 1 + ((ks >> 4) & 1)
    hm1, wm1 = _get(r, "NPU_SET_KERNEL_HEIGHT_M1"), _get(r, "NPU_SET_KERNEL_WIDTH_M1")
    return dict(stride_x=sx, stride_y=sy, dilation_x=dx, dilation_y=dy, part_kernel=(ks >> 2) & 1, dilated_h=hm1 + 1, dilated_w=wm1 + 1,
                height=hm1 // dy + 1 if hm1 % dy == 0 else None, width=wm1 // dx + 1 if wm1 % dx == 0 else None)


def fields(cmd):
    """decode the register snapshot of an operation into the fields that kind of operation consumes"""
    r = cmd.regs
    k = cmd.kind
    if k == "dma":
        return dict(kind=k, src_region=_get(r, "NPU_SET_DMA0_SRC_REGION"), dst_region=_get(r, "NPU_SET_DMA0_DST_REGION"), src=_get(r, "NPU_SET_DMA0_SRC"),
                    dst=_get(r, "NPU_SET_DMA0_DST"), length=_get(r, "NPU_SET_DMA0_LEN"), channel=cmd.param >> 4, mode=cmd.param & 0xF)
    if k in ("kernel_wait", "dma_wait", "stop", "irq", "pmu"):
        return dict(kind=k, param=cmd.param)
    f = dict(kind=k)
    f["ifm"] = fm_fields(r, "IFM")
    f["ifm"]["depth"] = _get(r, "NPU_SET_IFM_DEPTH_M1") + 1
    f["ofm"] = fm_fields(r, "OFM")
    f["ofm"].update(height=_get(r, "NPU_SET_OFM_HEIGHT_M1") + 1, width=_get(r, "NPU_SET_OFM_WIDTH_M1") + 1, depth=_get(r, "NPU_SET_OFM_DEPTH_M1") + 1)
    f["upscale"] = _get(r, "NPU_SET_IFM_UPSCALE")
    act = _get(r, "NPU_SET_ACTIVATION")
    f["activation"] = dict(raw=act, type=act & 0x1F, lut_index=(act & 0xF) if act & 0x10 else None, clip_range=(act >> 12) & 3,
                           min=s16(_get(r, "NPU_SET_ACTIVATION_MIN")), max=s16(_get(r, "NPU_SET_ACTIVATION_MAX")))
    f["block"] = dict(height=_get(r, "NPU_SET_OFM_BLK_HEIGHT_M1") + 1, width=_get(r, "NPU_SET_OFM_BLK_WIDTH_M1") + 1, depth=_get(r, "NPU_SET_OFM_BLK_DEPTH_M1") + 1)
    f["shram"] = dict(ib_end=_get(r, "NPU_SET_IFM_IB_END"), ab_start=_get(r, "NPU_SET_AB_START"), acc_format=_get(r, "NPU_SET_ACC_FORMAT"),
                      ib_start2=r.get("NPU_SET_IFM2_IB_START"))
    f["blockdep"] = _get(r, "NPU_SET_BLOCKDEP")
    f["parallel_mode"] = r.get("NPU_SET_PARALLEL_MODE", 0)
    if k != "elementwise":
        f["kernel"] = kernel_fields(r)
        f["pad"] = dict(top=_get(r, "NPU_SET_IFM_PAD_TOP"), left=_get(r, "NPU_SET_IFM_PAD_LEFT"), bottom=_get(r, "NPU_SET_IFM_PAD_BOTTOM"), right=_get(r, "NPU_SET_IFM_PAD_RIGHT"))
    if k in ("conv", "depthwise"):
        f["weights"] = dict(region=_get(r, "NPU_SET_WEIGHT_REGION"), base=[_get(r, "NPU_SET_WEIGHT_BASE"), r.get("NPU_SET_WEIGHT1_BASE")],
                            length=[_get(r, "NPU_SET_WEIGHT_LENGTH"), r.get("NPU_SET_WEIGHT1_LENGTH")])
        f["scales"] = dict(region=_get(r, "NPU_SET_SCALE_REGION"), base=[_get(r, "NPU_SET_SCALE_BASE"), r.get("NPU_SET_SCALE1_BASE")],
                           length=[_get(r, "NPU_SET_SCALE_LENGTH"), r.get("NPU_SET_SCALE1_LENGTH")])
    if k == "pool":
        if cmd.param >= len(POOL_MODES):
            raise DecodeError("pooling mode %d" % cmd.param)
        f["mode"] = POOL_MODES[cmd.param]
        if f["ofm"]["global_scale"]:
            f["ofm_scale"] = _get(r, "NPU_SET_OFM_SCALE")
    if k == "elementwise":
        if cmd.param >= len(ELEMENTWISE_MODES):
            raise DecodeError("elementwise mode %d" % cmd.param)
        f["mode"] = ELEMENTWISE_MODES[cmd.param]
        f["ofm_scale"] = _get(r, "NPU_SET_OFM_SCALE")
        if f["mode"] in ("ADD", "SUB"):
            f["opa_scale"] = _get(r, "NPU_SET_OPA_SCALE")
            f["opb_scale"] = _get(r, "NPU_SET_OPB_SCALE")
        if f["mode"] not in ("LRELU", "ABS", "CLZ"):
            bc = _get(r, "NPU_SET_IFM2_BROADCAST")
            if bc & ~0xC7:
                raise DecodeError("IFM2_BROADCAST has reserved bits set: 0x%x" % bc)
            f["broadcast"] = dict(h=bc & 1, w=(bc >> 1) & 1, c=(bc >> 2) & 1, reverse=(bc >> 6) & 1, scalar=(bc >> 7) & 1)
            if f["broadcast"]["scalar"]:
                prec = _get(r, "NPU_SET_IFM2_PRECISION")
                f["ifm2"] = dict(signed=prec & 1, bits=8 << ((prec >> 2) & 3), nhcwb16=(prec >> 6) & 1, scale_mode=(prec >> 8) & 3,
                                 zero_point=s16(_get(r, "NPU_SET_IFM2_ZERO_POINT")), scalar=_get(r, "NPU_SET_IFM2_SCALAR"))
            else:
                f["ifm2"] = fm_fields(r, "IFM2")
    return f


# registers each kind of operation consumes (used to decide whether an elided write was *needed*)
def consumed_registers(cmd):
    k = cmd.kind
    if k == "dma":
        return ["NPU_SET_DMA0_SRC_REGION", "NPU_SET_DMA0_DST_REGION", "NPU_SET_DMA0_SRC", "NPU_SET_DMA0_DST", "NPU_SET_DMA0_LEN"]
    if k not in ("conv", "depthwise", "pool", "elementwise"):
        return []
    regs = []
    for p in ("IFM", "OFM"):
        regs += ["NPU_SET_%s_%s" % (p, s) for s in ("REGION", "BASE0", "BASE1", "BASE2", "BASE3", "HEIGHT0_M1", "HEIGHT1_M1", "WIDTH0_M1", "STRIDE_X", "STRIDE_Y", "STRIDE_C",
                                                     "PRECISION", "ZERO_POINT")]
    regs += ["NPU_SET_IFM_DEPTH_M1", "NPU_SET_OFM_HEIGHT_M1", "NPU_SET_OFM_WIDTH_M1", "NPU_SET_OFM_DEPTH_M1", "NPU_SET_IFM_UPSCALE", "NPU_SET_ACTIVATION",
             "NPU_SET_ACTIVATION_MIN", "NPU_SET_ACTIVATION_MAX", "NPU_SET_OFM_BLK_HEIGHT_M1", "NPU_SET_OFM_BLK_WIDTH_M1", "NPU_SET_OFM_BLK_DEPTH_M1", "NPU_SET_IFM_IB_END",
             "NPU_SET_AB_START", "NPU_SET_ACC_FORMAT", "NPU_SET_BLOCKDEP"]
    if k != "elementwise":
        regs += ["NPU_SET_KERNEL_HEIGHT_M1", "NPU_SET_KERNEL_WIDTH_M1", "NPU_SET_KERNEL_STRIDE", "NPU_SET_IFM_PAD_TOP", "NPU_SET_IFM_PAD_LEFT", "NPU_SET_IFM_PAD_BOTTOM",
                 "NPU_SET_IFM_PAD_RIGHT"]
    if k in ("conv", "depthwise"):
        regs += ["NPU_SET_WEIGHT_REGION", "NPU_SET_WEIGHT_BASE", "NPU_SET_WEIGHT_LENGTH", "NPU_SET_SCALE_REGION", "NPU_SET_SCALE_BASE", "NPU_SET_SCALE_LENGTH"]
    if k == "elementwise":
        regs += ["NPU_SET_OFM_SCALE"]
    return regs

"""plain flatbuffer parser for .tflite files (source models and Vela output) on the vendored accessors - no Vela code.

load(data) -> dict(version, description, buffers=[bytes|None], opcodes, subgraphs=[dict(name, tensors, ops, inputs, outputs)], metadata={name: bytes})
tensor = dict(name, shape, shape_signature, dtype, scale, zp, qdim, buffer, data(bytes|None), is_variable)
op = dict(code (builtin name), custom_code, version, inputs, outputs, intermediates, options=(table name, {field: value}) | None, custom_options (bytes|None))
"""
import importlib
import struct

import numpy as np

import fbwrite
from vtfl.Model import Model


class ModelError(Exception):
    pass


def _read_options(op):
    ot = op.BuiltinOptionsType()
    if ot == 0:
        return None
    name = fbwrite.BOPT_NAMES.get(ot)
    if name is None:
        return ("?%d" % ot, {})
    tab = op.BuiltinOptions()
    if tab is None:
        return (name, None)
    info = fbwrite.option_table(name)
    cls = getattr(info["module"], name)
    o = cls()
    o.Init(tab.Bytes, tab.Pos)
    vals = {}
    for fld, kind, slot, default, vec in info["fields"]:
        if vec is not None:
            n = getattr(o, fld + "Length")()
            vals[fld] = [getattr(o, fld)(j) for j in range(n)]
            vals[fld] = [v.item() if hasattr(v, "item") else v for v in vals[fld]]
        else:
            v = getattr(o, fld)()
            if isinstance(v, bytes):
                v = v.decode("utf-8", "replace")
            if hasattr(v, "item"):
                v = v.item()
            if kind == "UOffsetTRelative" and not isinstance(v, (str, int, float, type(None))):
                v = "<table>"
            vals[fld] = v
    return (name, vals)


def load(data):
    if len(data) < 8 or data[4:8] != b"TFL3":
        raise ModelError("not a TFL3 flatbuffer")
    try:
        buf = bytearray(data)
        m = Model.GetRootAsModel(buf, 0)
        out = dict(version=m.Version(), description=(m.Description() or b"").decode("utf-8", "replace"), buffers=[], opcodes=[], subgraphs=[], metadata={})
        for i in range(m.BuffersLength()):
            b = m.Buffers(i)
            if b.DataLength():
                arr = b.DataAsNumpy()
                off = arr.__array_interface__["data"][0] - np.frombuffer(buf, np.uint8).__array_interface__["data"][0]
                out["buffers"].append(dict(data=arr.tobytes(), offset=int(off)))
            else:
                out["buffers"].append(None)
        for i in range(m.OperatorCodesLength()):
            oc = m.OperatorCodes(i)
            code = max(oc.BuiltinCode(), oc.DeprecatedBuiltinCode())
            out["opcodes"].append(dict(code=fbwrite.BO_NAMES.get(code, "?%d" % code), custom_code=oc.CustomCode().decode() if oc.CustomCode() else None, version=oc.Version()))
        for si in range(m.SubgraphsLength()):
            sg = m.Subgraphs(si)
            tensors = []
            for i in range(sg.TensorsLength()):
                t = sg.Tensors(i)
                q = t.Quantization()
                bidx = t.Buffer()
                bd = out["buffers"][bidx] if 0 <= bidx < len(out["buffers"]) else None
                tensors.append(dict(
                    name=(t.Name() or b"").decode("utf-8", "replace"), shape=[int(v) for v in t.ShapeAsNumpy()] if t.ShapeLength() else [],
                    has_shape=not t.ShapeIsNone(), shape_signature=[int(v) for v in t.ShapeSignatureAsNumpy()] if t.ShapeSignatureLength() else None,
                    dtype=fbwrite.TT_NAMES.get(t.Type(), "?%d" % t.Type()).lower(),
                    scale=None if q is None or q.ScaleLength() == 0 else [float(v) for v in q.ScaleAsNumpy()],
                    zp=None if q is None or q.ZeroPointLength() == 0 else [int(v) for v in q.ZeroPointAsNumpy()],
                    qdim=0 if q is None else q.QuantizedDimension(), has_quant=q is not None, buffer=bidx, data=bd["data"] if bd else None, is_variable=bool(t.IsVariable())))
            ops = []
            for i in range(sg.OperatorsLength()):
                o = sg.Operators(i)
                oc = out["opcodes"][o.OpcodeIndex()]
                ops.append(dict(code=oc["code"], custom_code=oc["custom_code"], version=oc["version"], inputs=[int(v) for v in o.InputsAsNumpy()] if o.InputsLength() else [],
                                outputs=[int(v) for v in o.OutputsAsNumpy()] if o.OutputsLength() else [],
                                intermediates=[int(v) for v in o.IntermediatesAsNumpy()] if o.IntermediatesLength() else [],
                                options=_read_options(o), custom_options=o.CustomOptionsAsNumpy().tobytes() if o.CustomOptionsLength() else None,
                                custom_options_format=o.CustomOptionsFormat()))
            out["subgraphs"].append(dict(name=(sg.Name() or b"").decode("utf-8", "replace"), tensors=tensors, ops=ops,
                                         inputs=[int(v) for v in sg.InputsAsNumpy()] if sg.InputsLength() else [],
                                         outputs=[int(v) for v in sg.OutputsAsNumpy()] if sg.OutputsLength() else []))
        for i in range(m.MetadataLength()):
            md = m.Metadata(i)
            b = out["buffers"][md.Buffer()] if 0 <= md.Buffer() < len(out["buffers"]) else None
            out["metadata"][md.Name().decode()] = b["data"] if b else b""
        return out
    except ModelError:
        raise
    except Exception as e:  # noqa
        raise ModelError("flatbuffer does not parse: %s: %s" % (type(e).__name__, e))


def offline_allocation(model):
    """-> list of arena offsets per tensor of subgraph 0 (or None): metadata OfflineMemoryAllocation = [version, subgraphs, ntensors, offsets...] int32"""
    raw = model["metadata"].get("OfflineMemoryAllocation")
    if not raw:
        return None
    vals = struct.unpack("<%di" % (len(raw) // 4), raw)
    return dict(version=vals[0], subgraphs=vals[1], count=vals[2], offsets=list(vals[3:]))


NP_DTYPES = {k: v[0] for k, v in fbwrite.DTYPES.items()}


def tensor_array(t):
    if t["data"] is None:
        return None
    dt = NP_DTYPES.get(t["dtype"])
    if dt is None:
        return None
    return np.frombuffer(t["data"], dt).reshape(t["shape"]) if len(t["data"]) == int(np.prod(t["shape"] or [1])) * np.dtype(dt).itemsize else np.frombuffer(t["data"], np.uint8)


def tensor_nbytes(t):
    dt = NP_DTYPES.get(t["dtype"])
    n = 1
    for d in t["shape"]:
        n *= d
    return n * (np.dtype(dt).itemsize if dt is not None else 1)

"""Hazard model of DESIGN.md §4 H7-H9 evaluated on the *emitted words* (C04).

check_stream(cmds, accel) walks the decoded stream keeping the set of operations that may still be in flight when each
operation is issued, as reduced by the KERNEL_WAIT / DMA_WAIT commands actually present, and returns the first hazard:
  cross-queue (DMA <-> kernel): RAW, WAR, WAW on exact byte footprints (external regions and SHRAM);
  kernel -> next kernel: RAW at block-job granularity against the programmed BLOCKDEP.
"""
import csdec
import footprint as fpm
import hw

MAX_KERNELS = 2


def max_dma(accel):
    return 2 if hw.ACCELS[accel]["product"] == 1 else 1


class Hazard(Exception):
    def __init__(self, kind, msg, detail=None):
        super().__init__(msg)
        self.kind, self.msg, self.detail = kind, msg, detail


def ofm_blocks(f):
    """OFM block boxes in job order (depth fastest, then width, then height): list of (y0,y1,x0,x1,z0,z1)"""
    o, b = f["ofm"], f["block"]
    out = []
    for y in range(0, o["height"], b["height"]):
        for x in range(0, o["width"], b["width"]):
            for z in range(0, o["depth"], b["depth"]):
                out.append((y, min(y + b["height"], o["height"]), x, min(x + b["width"], o["width"]), z, min(z + b["depth"], o["depth"])))
    return out


def ifm_depth_blocks(f, accel):
    """IFM depth slices a convolution job iterates over (16 or 32 channel blocks); other kinds read the OFM block's own depth range"""
    if f["kind"] != "conv" and not (f["kind"] == "pool" and f.get("mode") == "REDUCE_SUM"):  # (REDUCE_SUM sums over the IFM depth like a convolution)
        return None
    bits = f["ifm"]["bits"]
    # 256 bits of IFM depth per block job: 32 channels of 8 bits (16 when the kernel is traversed part-kernel-first), 16 of 16 bits, 8 of 32 bits
    step = 16 if (bits == 16 or (bits == 8 and f.get("kernel", {}).get("part_kernel"))) else 8 if bits == 32 else 32
    d = f["ifm"]["depth"]
    return [(z, min(z + step, d)) for z in range(0, d, step)]


def job_reads(f, accel, njobs):
    """byte footprints (IFM and IFM2) of the first njobs jobs of operation f"""
    blocks = ofm_blocks(f)
    zs = ifm_depth_blocks(f, accel)
    ih, iw = fpm.ifm_extent(f)
    jobs = []
    for blk in blocks:
        y0, y1, x0, x1, z0, z1 = blk
        if f["kind"] == "elementwise":
            box = (y0, y1, x0, x1)
        else:
            k, p = f["kernel"], f["pad"]
            up = 2 if f["upscale"] else 1
            # kernels larger than 8x8 elements are decomposed by the hardware into sub-kernel passes *inside* a block job ("jobs are invisibly decomposed into
            # subkernels"): a job reads the window of the whole kernel, up to the largest window the block-dependency rule of the hardware description accounts for
            # (64 columns x 32 rows, H8).  (An earlier version of this model used the first 8x8 sub-kernel only; that was weaker than the documented rule and hid
            # a seeded change that sized the window by the sub-kernel limit.)
            sub_h = min(k["dilated_h"], 32)
            sub_w = min(k["dilated_w"], 64)
            decomposed = False
            ry0 = y0 * k["stride_y"] - p["top"]
            ry1 = (y1 - 1) * k["stride_y"] - p["top"] + sub_h
            rx0 = x0 * k["stride_x"] - p["left"]
            rx1 = (x1 - 1) * k["stride_x"] - p["left"] + sub_w
            if decomposed:
                njobs = 1
            # coordinates are in the (up-scaled) input plane; map to stored rows/cols
            box = (max(ry0, 0) // up, min(-(-ry1 // up), ih), max(rx0, 0) // up, min(-(-rx1 // up), iw))
        for zr in (zs or [(z0, z1)]):
            fp = {}
            ifm = f["ifm"]
            fp.setdefault(ifm["region"], []).extend(fpm.fm_box(ifm, box[0], box[1], box[2], box[3], zr[0], zr[1]))
            if f["kind"] == "elementwise" and "ifm2" in f and "base" in f["ifm2"]:
                b, i2 = f["broadcast"], f["ifm2"]
                fp.setdefault(i2["region"], []).extend(fpm.fm_box(i2, 0 if b["h"] else y0, 1 if b["h"] else y1, 0 if b["w"] else x0, 1 if b["w"] else x1,
                                                                   0 if b["c"] else z0, 1 if b["c"] else z1))
            jobs.append({r: fpm.merge(iv) for r, iv in fp.items()})
            if len(jobs) >= njobs:
                return jobs
    return jobs


def last_job_writes(f, n):
    """byte footprints of the OFM blocks written by the last n block jobs of operation f (last first)"""
    blocks = ofm_blocks(f)
    out = []
    for blk in reversed(blocks[-n:] if n else []):
        o = f["ofm"]
        out.append({o["region"]: fpm.merge(fpm.fm_box(o, blk[0], blk[1], blk[2], blk[3], blk[4], blk[5]))})
    return out


def check_stream(cmds, accel, stats=None):
    """cmds: csdec.decode_words output.  raises Hazard.  stats: optional dict collecting counts"""
    kern = []  # in-flight kernel ops: (index, fields, reads, writes)
    dma = []
    D = max_dma(accel)
    prev_kernel = None
    stats = stats if stats is not None else {}
    for c in cmds:
        if c.kind == "kernel_wait":
            n = c.param & 0xF
            kern = kern[len(kern) - n:] if n else []
            continue
        if c.kind == "dma_wait":
            n = c.param & 0xF
            dma = dma[len(dma) - n:] if n else []
            continue
        if c.kind not in ("conv", "depthwise", "pool", "elementwise", "dma"):
            continue
        f = csdec.fields(c)
        reads, writes = fpm.op_footprints(f, accel)
        if c.kind == "dma":
            dma = dma[len(dma) - (D - 1):] if D > 1 else []
            others = kern
        else:
            kern = kern[len(kern) - (MAX_KERNELS - 1):]
            others = dma
        for (oi, of, oreads, owrites) in others:
            for kind, a, b in (("RAW", owrites, reads), ("WAR", oreads, writes), ("WAW", owrites, writes)):
                hit = fpm.fp_intersects(a, b)
                if hit:
                    stats["cross_overlap"] = stats.get("cross_overlap", 0) + 1
                    raise Hazard("cross-queue/%s" % kind, "%s #%d is issued while %s #%d may still be in flight and they have a %s conflict on region 0x%x bytes [0x%x,0x%x)" % (
                        c.kind, c.index, of["kind"], oi, kind, hit[0], hit[1], hit[2]), dict(op=c.index, other=oi))
        if c.kind != "dma":
            if prev_kernel is not None:
                pf = prev_kernel[1]
                k = f["blockdep"]
                if fpm.fp_intersects(prev_kernel[3], reads):
                    stats["kernel_raw_overlap"] = stats.get("kernel_raw_overlap", 0) + 1
                    if k > 0:
                        stats["blockdep_nonzero_with_overlap"] = stats.get("blockdep_nonzero_with_overlap", 0) + 1
                        jr = job_reads(f, accel, k)
                        lw = last_job_writes(pf, k)
                        for j, r in enumerate(jr):
                            for i, w in enumerate(lw):
                                if i + j < k:
                                    hit = fpm.fp_intersects(w, r)
                                    if hit:
                                        raise Hazard("blockdep", "BLOCKDEP %d lets job %d of %s #%d start while the %s block job of %s #%d is unfinished, "
                                                     "but it reads bytes [0x%x,0x%x) of region %d that the job writes" % (
                                                         k, j, c.kind, c.index, "last" if i == 0 else "%d-from-last" % i, pf["kind"], prev_kernel[0], hit[1], hit[2], hit[0]),
                                                     dict(op=c.index, prev=prev_kernel[0], j=j, i=i, blockdep=k))
                # H9: the previous operation still reads its LUT while the next one's accumulators may overwrite the LUT area (16-bank SHRAM)
                plut = {csdec.SHRAM_REGION: prev_kernel[2].get(csdec.SHRAM_REGION, [])}
                hit = fpm.fp_intersects(plut, {csdec.SHRAM_REGION: writes.get(csdec.SHRAM_REGION, [])})
                if hit and k > 0:
                    raise Hazard("blockdep-lut", "BLOCKDEP %d although %s #%d overwrites SHRAM bytes [0x%x,0x%x) holding the lookup table %s #%d is still using" % (
                        k, c.kind, c.index, hit[1], hit[2], pf["kind"], prev_kernel[0]), dict(op=c.index, prev=prev_kernel[0], blockdep=k))
                if fpm.fp_intersects(prev_kernel[2], writes) or fpm.fp_intersects(prev_kernel[3], writes):
                    stats["kernel_war_waw_overlap_reported_only"] = stats.get("kernel_war_waw_overlap_reported_only", 0) + 1
            prev_kernel = (c.index, f, reads, writes)
            kern.append(prev_kernel)
        else:
            dma.append((c.index, f, reads, writes))
    return stats

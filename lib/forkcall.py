"""process isolation helpers: run fn(arg) in a forked child and get the (picklable) result back.

forkcall(fn, arg)      forks the *current* process (use when the current process has never run the code under test)
PristineServer(fn)     forks a server now (while pristine); each .call(arg) makes the server fork a grandchild, so every
                       call starts from the pristine state even if the caller's own process has a history.
Results: ("ok", value) | ("exc", type name, message, innermost repository frame, traceback text) | ("died", exitcode) | ("timeout",)
"""
import os
import pickle
import select
import signal
import struct
import sys
import time
import traceback


def _frame(exc):
    tb = traceback.extract_tb(exc.__traceback__)
    for fr in reversed(tb):
        if "/ethosu/" in fr.filename and "/verif/" not in fr.filename:
            return "%s:%s" % (os.path.basename(fr.filename), fr.name)
    return None


def _run(fn, arg):
    try:
        return ("ok", fn(arg))
    except SystemExit as e:
        return ("exit", e.code if isinstance(e.code, int) else 1)
    except BaseException as e:  # noqa
        return ("exc", type(e).__name__, str(e)[:500], _frame(e), "".join(traceback.format_exception(type(e), e, e.__traceback__))[-3000:])


def _write_all(fd, data):
    view = memoryview(data)
    while view:
        n = os.write(fd, view)
        view = view[n:]


def _read_exact(fd, n, deadline):
    buf = bytearray()
    while len(buf) < n:
        if deadline is not None:
            left = deadline - time.time()
            if left <= 0:
                return None
            r, _, _ = select.select([fd], [], [], min(left, 1.0))
            if not r:
                continue
        chunk = os.read(fd, min(1 << 20, n - len(buf)))
        if not chunk:
            return bytes(buf) if buf else b""
        buf += chunk
    return bytes(buf)


def forkcall(fn, arg, timeout=600, quiet=True):
    rd, wr = os.pipe()
    sys.stdout.flush()
    sys.stderr.flush()
    pid = os.fork()
    if pid == 0:
        code = 0
        try:
            os.close(rd)
            if quiet:
                devnull = os.open(os.devnull, os.O_WRONLY)
                os.dup2(devnull, 1)
                os.dup2(devnull, 2)
            res = _run(fn, arg)
            try:
                data = pickle.dumps(res)
            except Exception as e:  # noqa
                data = pickle.dumps(("exc", "PickleError", str(e)[:300], None, ""))
            _write_all(wr, struct.pack("<Q", len(data)) + data)
        except BaseException:  # noqa
            code = 3
        finally:
            os._exit(code)
    os.close(wr)
    deadline = time.time() + timeout if timeout else None
    try:
        hdr = _read_exact(rd, 8, deadline)
        if hdr is None:
            os.kill(pid, signal.SIGKILL)
            os.waitpid(pid, 0)
            return ("timeout",)
        if len(hdr) < 8:
            _, status = os.waitpid(pid, 0)
            return ("died", -os.WTERMSIG(status) if os.WIFSIGNALED(status) else os.WEXITSTATUS(status))
        (n,) = struct.unpack("<Q", hdr)
        data = _read_exact(rd, n, deadline)
        if data is None or len(data) < n:
            os.kill(pid, signal.SIGKILL)
            os.waitpid(pid, 0)
            return ("timeout",) if data is None else ("died", -9)
        os.waitpid(pid, 0)
        return pickle.loads(data)
    finally:
        os.close(rd)


class PristineServer:
    def __init__(self, fn, timeout=600):
        self.timeout = timeout
        c2s_r, c2s_w = os.pipe()
        s2c_r, s2c_w = os.pipe()
        sys.stdout.flush()
        sys.stderr.flush()
        pid = os.fork()
        if pid == 0:
            try:
                os.close(c2s_w)
                os.close(s2c_r)
                while True:
                    hdr = _read_exact(c2s_r, 8, None)
                    if not hdr or len(hdr) < 8:
                        break
                    (n,) = struct.unpack("<Q", hdr)
                    arg = pickle.loads(_read_exact(c2s_r, n, None))
                    res = forkcall(fn, arg, timeout)
                    data = pickle.dumps(res)
                    _write_all(s2c_w, struct.pack("<Q", len(data)) + data)
            finally:
                os._exit(0)
        os.close(c2s_r)
        os.close(s2c_w)
        self.pid, self.w, self.r = pid, c2s_w, s2c_r

    def call(self, arg):
        data = pickle.dumps(arg)
        _write_all(self.w, struct.pack("<Q", len(data)) + data)
        hdr = _read_exact(self.r, 8, time.time() + self.timeout + 30)
        if not hdr or len(hdr) < 8:
            return ("died", None)
        (n,) = struct.unpack("<Q", hdr)
        return pickle.loads(_read_exact(self.r, n, time.time() + 60))

    def close(self):
        try:
            os.close(self.w)
            os.close(self.r)
            os.waitpid(self.pid, 0)
        except OSError:
            pass

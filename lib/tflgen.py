"""E-gen: Hypothesis strategies producing shape-consistent TFLite network specs (fbwrite format) by construction,
plus compiler configurations.  No rejection sampling: shapes are propagated forward through each chosen operator.

network(profile) profiles:
  "exact"  - operators of C01's exact class only (bit-exact comparison)
  "npu"    - everything Vela can place on the NPU that the reference interpreter models (approximate-class operators only in tail position)
  "wide"   - the widest structurally valid space (C13): all of the above anywhere, CPU-only and custom operators, odd ranks/dtypes/quantisation
"""
import math
import os

ACT = {"NONE": 0, "RELU": 1, "RELU_N1_TO_1": 2, "RELU6": 3}
EXACT_OPS = ["conv", "conv", "conv", "twinconv", "dw", "fc", "maxpool", "avgpool_valid", "add", "add", "sub", "mul", "relu", "relu6", "reshape", "concat", "pad", "quantize",
             "sslice", "split", "maximum", "minimum", "add_const", "mul_const", "padconv", "padpool"]
APPROX_TAIL_OPS = ["avgpool_same", "logistic", "tanh", "hswish", "lrelu", "softmax", "mean", "resize_nearest", "resize_bilinear", "abs", "tconv", "exp", "log", "sqrt", "rsqrt", "gelu", "prelu"]
LUT_UNARY = {"exp": "EXP", "log": "LOG", "sqrt": "SQRT", "rsqrt": "RSQRT", "gelu": "GELU"}
UNREFERENCED_NPU_OPS = ["sqdiff", "shape"]  # accelerated operators without a reference kernel here: generated where values are not compared (C02/C03/C12/C13)
CPU_OPS = ["custom", "dequant_quant", "float_chain", "gather", "tile", "argmax_tail", "unsupported_conv"]


class NB:
    """network builder bound to a Hypothesis draw function"""

    def __init__(self, draw, st, profile):
        self.draw, self.st, self.profile = draw, st, profile
        self.tensors, self.ops, self.inputs = [], [], []
        self.n = 0

    # ---- tensors ---------------------------------------------------------------------------------------
    def t(self, name, shape, dtype, scale=None, zp=None, data=None, qdim=0, **kw):
        self.n += 1
        d = dict(name="%s_%d" % (name, self.n), shape=[int(v) for v in shape], dtype=dtype, scale=scale, zp=zp, data=data, qdim=qdim)
        d.update(kw)
        self.tensors.append(d)
        return len(self.tensors) - 1

    def quant(self, dtype, like=None):
        d, st = self.draw, self.st
        if like is not None and d(st.integers(0, 2)) == 0:
            return like
        scale = d(st.sampled_from([0.5, 0.25, 0.1, 0.05, 0.0235, 0.0078125, 0.00392157, 0.011, 0.2, 1.0, 0.003]))
        if dtype == "int16":
            return (scale / 64.0, 0)
        if dtype == "uint8":
            return (scale, d(st.one_of(st.integers(0, 255), st.sampled_from([0, 128, 255]))))
        return (scale, d(st.one_of(st.integers(-128, 127), st.sampled_from([-128, 0, 127]))))

    def act(self):
        return self.draw(self.st.sampled_from(["NONE", "NONE", "RELU", "RELU6", "RELU_N1_TO_1"]))

    def info(self, i):
        return self.tensors[i]

    def out(self, name, shape, dtype, q):
        return self.t(name, shape, dtype, q[0], q[1])

    def op(self, code, inputs, outputs, table=None, fields=None, version=1, **kw):
        o = dict(code=code, inputs=list(inputs), outputs=list(outputs), opts=dict(table=table, fields=fields or {}) if table else None, version=version)
        o.update(kw)
        self.ops.append(o)

    def const_i32(self, name, values, shape=None):
        return self.t(name, shape if shape is not None else [len(values)], "int32", data=dict(values=[int(v) for v in values]))

    # ---- operators -------------------------------------------------------------------------------------
    def wdata(self, dtype, seed):
        lo, hi = (0, 255) if dtype == "uint8" else (-127, 127)
        dist = self.draw(self.st.sampled_from(["uniform", "uniform", "sparse", "small"]))
        return dict(seed=seed, lo=lo, hi=hi, dist=dist)

    def conv(self, x, kind="conv", force_pad=None, force_stride=None, no_bias=False):
        d, st = self.draw, self.st
        X = self.info(x)
        n, h, w, c = X["shape"]
        dt = X["dtype"]
        kh = d(st.one_of(st.integers(1, 3), st.integers(1, 5), st.sampled_from([1, 3])))
        kw = d(st.one_of(st.integers(1, 3), st.integers(1, 5), st.sampled_from([1, 3])))
        if self.profile in ("cascade", "convs", "heavy") and d(st.integers(0, 3 if self.profile != "cascade" else 1)) == 0:
            # kernels that are clearly taller than wide or wider than tall (the two axes must not be confused anywhere between the scheduler and the registers)
            kh, kw = d(st.sampled_from([(5, 1), (7, 1), (9, 3), (1, 5), (1, 7), (3, 9), (7, 2)]))
        sh, sw = (d(st.sampled_from([1, 1, 2, 3])), d(st.sampled_from([1, 1, 2, 3]))) if force_stride is None else force_stride
        if self.profile == "convs" and d(st.booleans()):
            sh = sw = 1
        if sh == sw == 1 and d(st.integers(0, 3 if self.profile not in ("convs", "cascade") else 1)) == 0:
            # dilation per axis, also beyond the hardware's native factor 2 (the compiler then dilates the kernel itself) and different on the two axes
            dil_h, dil_w = d(st.sampled_from([1, 2, 2, 3, 4])), d(st.sampled_from([1, 2, 2, 3, 4]))
            if kind != "conv" and max(dil_h, dil_w) > 2:
                dil_h, dil_w = min(dil_h, 2), min(dil_w, 2)
        else:
            dil_h = dil_w = 1
        pad = d(st.sampled_from(["SAME", "VALID"])) if force_pad is None else force_pad
        dkh, dkw = dil_h * (kh - 1) + 1, dil_w * (kw - 1) + 1
        if pad == "VALID" and (dkh > h or dkw > w):
            kh, kw, dil_h, dil_w = min(kh, h), min(kw, w), 1, 1
            dkh, dkw = kh, kw
        if pad == "SAME":
            oh, ow = -(-h // sh), -(-w // sw)
        else:
            oh, ow = (h - dkh) // sh + 1, (w - dkw) // sw + 1
        if kind == "dw":
            mult = 1 if c > 1 or d(st.booleans()) else d(st.sampled_from([1, 2, 4]))
            oc = c * mult
            wshape = [1, kh, kw, oc]
            qdim = 3
        else:
            oc = d(st.one_of(st.integers(1, 8), st.integers(1, 40), st.sampled_from([8, 16, 17, 32, 33])))
            if self.profile == "heavy":
                # weight-heavy, compute-light layers: the weights are streamed in several depth slices through the double buffer
                oc = d(st.sampled_from([48, 72, 96, 112, 120, 144, 200]))
            wshape = [oc, kh, kw, c]
            qdim = 0
        wdt = "uint8" if dt == "uint8" else "int8"
        perch = dt != "uint8" and d(st.integers(0, 2)) != 0
        seed = d(st.integers(0, 1 << 30))
        if perch:
            import numpy as np

            ws = [float(v) for v in np.random.default_rng(seed).uniform(0.002, 0.02, oc).astype(np.float32)]
            wz = [0] * oc
        else:
            ws = d(st.sampled_from([0.01, 0.005, 0.02, 0.0078125]))
            wz = 0 if dt != "uint8" else d(st.integers(0, 255))
        wt = self.t("w", wshape, wdt, ws, wz, self.wdata(wdt, seed), qdim=qdim)
        bdt = "int64" if dt == "int16" and d(st.booleans()) else "int32"
        xs = X["scale"]
        bs = [float(v) * float(xs) for v in ws] if perch else float(ws) * float(xs)
        brange = 2000 if dt != "int16" else 200000
        bt = self.t("b", [oc], bdt, bs, [0] * oc if perch else 0, dict(seed=seed + 1, lo=-brange, hi=brange))
        oq = self.quant(dt)
        o = self.out(kind, [n, oh, ow, oc], dt, oq)
        fields = dict(Padding=0 if pad == "SAME" else 1, StrideW=sw, StrideH=sh, FusedActivationFunction=ACT[self.act()], DilationWFactor=dil_w, DilationHFactor=dil_h)
        if kind == "dw":
            fields["DepthMultiplier"] = oc // c
            self.op("DEPTHWISE_CONV_2D", [x, wt, bt], [o], "DepthwiseConv2DOptions", fields, version=3)
        else:
            self.op("CONV_2D", [x, wt, bt] if not no_bias else [x, wt, -1], [o], "Conv2DOptions", fields, version=3)
        return o

    def twinconv(self, x):
        """two convolutions over the same input that share one weight tensor but have their own bias (the second one gets a stand-alone scale/bias stream), summed"""
        import copy

        o1 = self.conv(x, self.draw(self.st.sampled_from(["conv", "conv", "dw"])))
        op1 = self.ops[-1]
        if len(op1["inputs"]) < 3 or op1["inputs"][2] < 0:
            return o1
        wt, bt = op1["inputs"][1], op1["inputs"][2]
        if self.draw(self.st.booleans()):
            bt2 = bt  # weight-tied towers: the bias tensor is shared as well, only the output quantisation differs
        else:
            b2 = copy.deepcopy(self.tensors[bt])
            self.n += 1
            b2["name"] = "b_twin_%d" % self.n
            b2["data"] = dict(b2["data"], seed=b2["data"]["seed"] + 17)
            self.tensors.append(b2)
            bt2 = len(self.tensors) - 1
        O = self.info(o1)
        o2 = self.out("twin", O["shape"], O["dtype"], self.quant(O["dtype"]))
        self.ops.append(dict(copy.deepcopy(op1), inputs=[x, wt, bt2], outputs=[o2]))
        return self.binary(o1, "ADD", o2)

    def tconv(self, x, force_stride=None):
        d, st = self.draw, self.st
        X = self.info(x)
        n, h, w, c = X["shape"]
        dt = X["dtype"]
        k = d(st.sampled_from([2, 3, 4]))
        s = d(st.sampled_from([1, 2, 2])) if force_stride is None else force_stride
        pad = d(st.sampled_from(["SAME", "VALID"]))
        oc = d(st.integers(1, 16))
        if force_stride is None and d(st.integers(0, 2)) == 0:
            return self.tconv_rect(x, pad, oc)
        oh, ow = (h * s, w * s) if pad == "SAME" else ((h - 1) * s + k, (w - 1) * s + k)
        wdt = "uint8" if dt == "uint8" else "int8"
        seed = d(st.integers(0, 1 << 30))
        wt = self.t("w", [oc, k, k, c], wdt, 0.01, 0 if dt != "uint8" else 128, self.wdata(wdt, seed))
        bt = self.t("b", [oc], "int32", 0.01 * float(X["scale"]), 0, dict(seed=seed + 1, lo=-1000, hi=1000))
        shp = self.const_i32("oshape", [n, oh, ow, oc])
        o = self.out("tconv", [n, oh, ow, oc], dt, self.quant(dt))
        self.op("TRANSPOSE_CONV", [shp, wt, x, bt], [o], "TransposeConvOptions", dict(Padding=0 if pad == "SAME" else 1, StrideW=s, StrideH=s), version=3)
        return o

    def tconv_rect(self, x, pad, oc, unit_stride=False):
        """TRANSPOSE_CONV with a rectangular kernel and, on one-row inputs, the 2x1 (WxH) stride"""
        d, st = self.draw, self.st
        X = self.info(x)
        n, h, w, c = X["shape"]
        dt = X["dtype"]
        kh, kw = d(st.integers(1, 4)), d(st.integers(1, 4))
        sh = sw = d(st.sampled_from([1, 2])) if not unit_stride else 1
        if unit_stride and h <= 10 and d(st.booleans()):
            kh = h + d(st.integers(1, 3))  # a kernel taller than the input: the output has more than twice the input's rows although nothing is up-scaled
        if h == 1 and d(st.booleans()) and not unit_stride:
            kh, sh, sw = 1, 1, 2
        oh, ow = (h * sh, w * sw) if pad == "SAME" else (h * sh + max(kh - sh, 0), w * sw + max(kw - sw, 0))
        wdt = "uint8" if dt == "uint8" else "int8"
        seed = d(st.integers(0, 1 << 30))
        wt = self.t("w", [oc, kh, kw, c], wdt, 0.01, 0 if dt != "uint8" else 128, self.wdata(wdt, seed))
        bt = self.t("b", [oc], "int32", 0.01 * float(X["scale"]), 0, dict(seed=seed + 1, lo=-1000, hi=1000))
        shp = self.const_i32("oshape", [n, oh, ow, oc])
        o = self.out("tconv", [n, oh, ow, oc], dt, self.quant(dt))
        self.op("TRANSPOSE_CONV", [shp, wt, x, bt], [o], "TransposeConvOptions", dict(Padding=0 if pad == "SAME" else 1, StrideW=sw, StrideH=sh), version=3)
        return o

    def fc(self, x):
        d, st = self.draw, self.st
        X = self.info(x)
        dt = X["dtype"]
        shape = X["shape"]
        keep_dims = False
        if len(shape) != 2:
            rows = int(math.prod(shape[:-1]))
            how = d(st.sampled_from(["flat", "flat", "rows", "keep"])) if len(shape) > 1 and rows <= 96 else "flat"
            if how == "flat":
                n = shape[0]
                flat = int(math.prod(shape[1:]))
                x = self.reshape(x, [n, flat])
                X = self.info(x)
            elif how == "rows":  # batched fully connected: one row per position
                x = self.reshape(x, [rows, shape[-1]])
                X = self.info(x)
            else:  # keep_num_dims: the operator works on the last dimension of a rank 3/4 tensor
                keep_dims = True
        n, c = (X["shape"][0], X["shape"][1]) if not keep_dims else (int(math.prod(shape[:-1])), shape[-1])
        oc = d(st.one_of(st.integers(1, 8), st.integers(1, 48)))
        wdt = "uint8" if dt == "uint8" else "int8"
        seed = d(st.integers(0, 1 << 30))
        ws = d(st.sampled_from([0.01, 0.005, 0.02]))
        wt = self.t("w", [oc, c], wdt, ws, 0 if dt != "uint8" else d(st.integers(0, 255)), self.wdata(wdt, seed))
        bt = self.t("b", [oc], "int32", ws * float(X["scale"]), 0, dict(seed=seed + 1, lo=-2000, hi=2000))
        o = self.out("fc", [n, oc] if not keep_dims else shape[:-1] + [oc], dt, self.quant(dt))
        fields = dict(FusedActivationFunction=ACT[self.act()])
        if keep_dims:
            fields["KeepNumDims"] = True
        self.op("FULLY_CONNECTED", [x, wt, bt], [o], "FullyConnectedOptions", fields, version=4)
        return o

    def pool(self, x, kind, pad=None, min_k=(1, 1)):
        d, st = self.draw, self.st
        X = self.info(x)
        n, h, w, c = X["shape"]
        kh, kw = d(st.integers(min(min_k[0], h), min(4, h))), d(st.integers(min(min_k[1], w), min(4, w)))
        sh, sw = d(st.sampled_from([1, 2, 2, 3])), d(st.sampled_from([1, 2, 2, 3]))
        pad = pad or d(st.sampled_from(["SAME", "VALID"]))
        if kind == "avgpool" and pad == "VALID" and w >= 4 and d(st.integers(0, 3)) == 0:
            # wide strides: documented for one-row outputs (the operator becomes a convolution whose stride is folded into the channels)
            sw = d(st.sampled_from([4, 4, 6, 5, 8]))
            kw = d(st.integers(1, min(w, sw)))
            if d(st.booleans()):
                kh, sh = h, 1  # one output row
        if pad == "SAME":
            oh, ow = -(-h // sh), -(-w // sw)
        else:
            oh, ow = (h - kh) // sh + 1, (w - kw) // sw + 1
        o = self.out(kind, [n, oh, ow, c], X["dtype"], (X["scale"], X["zp"]))
        self.op("MAX_POOL_2D" if kind == "maxpool" else "AVERAGE_POOL_2D", [x], [o], "Pool2DOptions",
                dict(Padding=0 if pad == "SAME" else 1, StrideW=sw, StrideH=sh, FilterWidth=kw, FilterHeight=kh, FusedActivationFunction=ACT[self.act()]), version=2)
        return o

    def binary(self, x, code, other=None, const=False):
        d, st = self.draw, self.st
        X = self.info(x)
        dt = X["dtype"]
        shape = X["shape"]
        if other is None:
            how = d(st.sampled_from(["same", "chan", "scalar", "hw1"])) if not const else d(st.sampled_from(["chan", "scalar", "same"]))
            if len(shape) != 4 and how in ("chan", "hw1"):
                how = "scalar"
            oshape = {"same": shape, "chan": [1, 1, 1, shape[-1]], "scalar": [1] * len(shape) if d(st.booleans()) else [], "hw1": shape[:-1] + [1]}[how]
            q2 = self.quant(dt, (X["scale"], X["zp"]))
            if code in ("MAXIMUM", "MINIMUM"):
                q2 = (X["scale"], X["zp"])
            lo, hi = (0, 255) if dt == "uint8" else (-128, 127) if dt == "int8" else (-20000, 20000)
            if const or how == "scalar":
                other = self.t("c", oshape, dt, q2[0], q2[1], dict(seed=d(st.integers(0, 1 << 30)), lo=lo, hi=hi))
            else:
                other = self.t("in", oshape, dt, q2[0], q2[1])
                self.inputs.append(other)
        oq = self.quant(dt) if code not in ("MAXIMUM", "MINIMUM") else (X["scale"], X["zp"])
        odt = dt
        if self.profile == "wide" and code in ("ADD", "SUB", "MUL") and dt in ("int8", "int16") and d(st.integers(0, 5)) == 0:
            # an output wider than the inputs: not something the converter emits, but a structurally valid model the compiler accepts or must refuse cleanly
            odt = d(st.sampled_from(["int16", "int32"])) if dt == "int8" else "int32"
            oq = (oq[0], 0)
        o = self.out(code.lower(), shape, odt, oq)
        ins = [x, other] if d(st.booleans()) else [other, x]
        if self.tensors[ins[0]]["shape"] != shape and code in ("SUB",) and self.profile == "exact" and False:
            ins = [x, other]
        tab = {"ADD": "AddOptions", "SUB": "SubOptions", "MUL": "MulOptions", "MAXIMUM": "MaximumMinimumOptions", "MINIMUM": "MaximumMinimumOptions", "SQUARED_DIFFERENCE": "SquaredDifferenceOptions"}[code]
        fields = dict(FusedActivationFunction=ACT[self.act()]) if code in ("ADD", "SUB", "MUL") else {}
        self.op(code, ins, [o], tab, fields, version=2)
        return o

    def unary(self, x, code, same_q=False, table=None, fields=None, version=1, out_q=None):
        X = self.info(x)
        q = (X["scale"], X["zp"]) if same_q else (out_q or self.quant(X["dtype"]))
        o = self.out(code.lower(), X["shape"], X["dtype"], q)
        self.op(code, [x], [o], table, fields, version=version)
        return o

    def reshape(self, x, shape=None):
        d, st = self.draw, self.st
        X = self.info(x)
        total = int(math.prod(X["shape"]))
        if shape is None:
            cands = [[1, total], [total], [1, 1, 1, total]]
            s = X["shape"]
            if len(s) == 4:
                cands += [[s[0], s[1] * s[2], 1, s[3]], [s[0], s[2], s[1], s[3]], [s[0], 1, s[1] * s[2], s[3]], [s[0] * s[1], s[2], s[3]], [s[0] * s[1] * s[2], s[3]]]
                if s[0] == 1 and s[1] > 1:
                    cands.append([s[1], 1, s[2], s[3]])  # a leading dimension other than 1
            if len(s) == 3:
                cands += [[1] + s, [s[0], 1, s[1], s[2]]]
            if len(s) <= 3 and d(st.integers(0, 3)) == 0:
                # EXPAND_DIMS spells the same re-shaping with an axis operand
                axis = d(st.integers(0, len(s)))
                so = s[:axis] + [1] + s[axis:]
                o = self.out("expand_dims", so, X["dtype"], (X["scale"], X["zp"]))
                self.op("EXPAND_DIMS", [x, self.t("axis", [], "int32", data=dict(values=[axis if d(st.booleans()) else axis - len(so)]))], [o], "ExpandDimsOptions", {})
                return o
            ones = [i for i, v in enumerate(s) if v == 1]
            if ones and len(s) > 1 and d(st.integers(0, 3)) == 0:
                # SQUEEZE of some (or, with an empty list, all) dimensions of extent 1
                drop = ones if d(st.booleans()) else [d(st.sampled_from(ones))]
                so = [v for i, v in enumerate(s) if i not in drop] or [1]
                o = self.out("squeeze", so, X["dtype"], (X["scale"], X["zp"]))
                dims = [] if (drop == ones and d(st.booleans()) and so != [1]) else [i if d(st.booleans()) else i - len(s) for i in drop]
                self.op("SQUEEZE", [x], [o], "SqueezeOptions", dict(SqueezeDims=dims))
                return o
            shape = d(st.sampled_from(cands))
        o = self.out("reshape", shape, X["dtype"], (X["scale"], X["zp"]))
        sh = self.const_i32("shape", shape)
        self.op("RESHAPE", [x, sh], [o], "ReshapeOptions", dict(NewShape=list(shape)))
        return o

    def concat(self, x, other=None):
        d, st = self.draw, self.st
        X = self.info(x)
        shape = X["shape"]
        axis = d(st.sampled_from([len(shape) - 1, len(shape) - 1, 1 if len(shape) > 2 else len(shape) - 1, 2 if len(shape) > 3 else len(shape) - 1]))
        if other is not None and self.info(other)["shape"][:axis] + self.info(other)["shape"][axis + 1:] != shape[:axis] + shape[axis + 1:]:
            other = None
        exact = self.profile in ("exact", "slices", "elementwise", "approx", "exact16", "convs", "mixed", "reshapes")  # the int8 reference kernel demands identical quantisation; C01's exact class keeps to it
        if exact and other is not None and (self.info(other)["scale"], self.info(other)["zp"]) != (X["scale"], X["zp"]):
            other = None
        if other is None:
            s2 = list(shape)
            s2[axis] = d(st.one_of(st.integers(1, 8), st.sampled_from([1, 16, 17])))
            q2 = self.quant(X["dtype"], (X["scale"], X["zp"])) if not exact else (X["scale"], X["zp"])
            other = self.t("in", s2, X["dtype"], q2[0], q2[1])
            self.inputs.append(other)
        so = list(shape)
        so[axis] = shape[axis] + self.info(other)["shape"][axis]
        o = self.out("concat", so, X["dtype"], self.quant(X["dtype"], (X["scale"], X["zp"])) if not exact else (X["scale"], X["zp"]))
        self.op("CONCATENATION", [x, other], [o], "ConcatenationOptions", dict(Axis=axis, FusedActivationFunction=0))
        return o

    def pad(self, x, hw_only=False):
        d, st = self.draw, self.st
        X = self.info(x)
        r = len(X["shape"])
        p = [[0, 0] for _ in range(r)]
        if r == 4:
            p[1] = [d(st.integers(0, 2)), d(st.integers(0, 2))]
            p[2] = [d(st.integers(0, 2)), d(st.integers(0, 2))]
            if not hw_only and d(st.integers(0, 3)) == 0:
                p[3] = [d(st.integers(0, 3)), d(st.integers(0, 3))]
        else:
            p[-1] = [d(st.integers(0, 3)), d(st.integers(0, 3))]
        pt = self.t("pads", [r, 2], "int32", data=dict(values=[v for pr in p for v in pr]))
        so = [s + a + b for s, (a, b) in zip(X["shape"], p)]
        o = self.out("pad", so, X["dtype"], (X["scale"], X["zp"]))
        self.op("PAD", [x, pt], [o], "PadOptions", {}, version=2)
        return o

    def sslice(self, x):
        d, st = self.draw, self.st
        X = self.info(x)
        shape = X["shape"]
        b = [0] * len(shape)
        e = list(shape)
        for ax in range(1 if len(shape) > 1 else 0, len(shape)):
            if shape[ax] > 1 and d(st.booleans()):
                b[ax] = d(st.integers(0, shape[ax] - 1))
                e[ax] = d(st.integers(b[ax] + 1, shape[ax]))
        so = [ee - bb for bb, ee in zip(b, e)]
        if len(shape) >= 2 and d(st.integers(0, 2)) == 0:
            return self.sslice_masked(x, b, e)
        o = self.out("sslice", so, X["dtype"], (X["scale"], X["zp"]))
        if d(st.booleans()):
            ins = [x, self.const_i32("begin", b), self.const_i32("end", e), self.const_i32("strides", [1] * len(shape))]
            self.op("STRIDED_SLICE", ins, [o], "StridedSliceOptions", dict(BeginMask=0, EndMask=0, EllipsisMask=0, NewAxisMask=0, ShrinkAxisMask=0), version=2)
        else:
            self.op("SLICE", [x, self.const_i32("begin", b), self.const_i32("size", so)], [o], "SliceOptions", {}, version=2)
        return o

    def sslice_masked(self, x, b, e):
        """STRIDED_SLICE (strides 1) spelling the range [b, e) of every axis in one of the ways the operator allows: begin/end masks, negative indices, an end beyond the
        dimension (clamped by the reference), shrink_axis_mask on axes of extent 1, or one new axis (new_axis_mask)"""
        d, st = self.draw, self.st
        X = self.info(x)
        shape = X["shape"]
        r = len(shape)
        bm = em = sam = nam = 0
        bb, ee = list(b), list(e)
        mode = d(st.sampled_from(["masks", "masks", "shrink", "newaxis"]))
        for ax in range(r):
            form = d(st.sampled_from(["plain", "mask", "negative", "beyond"]))
            if form == "mask":
                if b[ax] == 0 and d(st.booleans()):
                    bm |= 1 << ax
                    bb[ax] = d(st.sampled_from([0, 1, -1, 5]))  # ignored
                if e[ax] == shape[ax]:
                    em |= 1 << ax
                    ee[ax] = d(st.sampled_from([0, 1, -1, shape[ax]]))  # ignored
            elif form == "negative":
                if b[ax] > 0 and d(st.booleans()):
                    bb[ax] = b[ax] - shape[ax]
                if e[ax] < shape[ax]:
                    ee[ax] = e[ax] - shape[ax]
            elif form == "beyond" and e[ax] == shape[ax]:
                ee[ax] = shape[ax] + d(st.sampled_from([1, 7, 1000]))
        so = [y - z for z, y in zip(b, e)]
        if mode == "shrink":
            cands = [ax for ax in range(r) if not (bm >> ax) & 1]
            for ax in cands:
                if d(st.booleans()) and r - bin(sam).count("1") > 1:
                    # the axis is reduced to the element at begin: end is ignored
                    sam |= 1 << ax
                    em &= ~(1 << ax)
                    ee[ax] = d(st.sampled_from([bb[ax] + 1, 0, shape[ax]]))
            so = [v if not (sam >> ax) & 1 else None for ax, v in enumerate([(1 if (sam >> ax) & 1 else so[ax]) for ax in range(r)])]
            so = [v for v in so if v is not None]
        elif mode == "newaxis" and r <= 3:
            pos = d(st.integers(0, r))
            ins = lambda lst, v: lst[:pos] + [v] + lst[pos:]
            shift = lambda m: (m & ((1 << pos) - 1)) | ((m >> pos) << (pos + 1))
            bb, ee = ins(bb, 0), ins(ee, d(st.sampled_from([0, 1])))
            bm, em = shift(bm), shift(em)
            nam = 1 << pos
            so = ins(so, 1)
        o = self.out("sslice", so, X["dtype"], (X["scale"], X["zp"]))
        ins_ = [x, self.const_i32("begin", bb), self.const_i32("end", ee), self.const_i32("strides", [1] * len(bb))]
        self.op("STRIDED_SLICE", ins_, [o], "StridedSliceOptions", dict(BeginMask=bm, EndMask=em, EllipsisMask=0, NewAxisMask=nam, ShrinkAxisMask=sam), version=2)
        return o

    def split(self, x):
        d, st = self.draw, self.st
        X = self.info(x)
        shape = X["shape"]
        axis = len(shape) - 1
        nsp = 2 if shape[axis] % 2 == 0 else (3 if shape[axis] % 3 == 0 else 1)
        if nsp == 1:
            return self.sslice(x)
        so = list(shape)
        so[axis] //= nsp
        outs = [self.out("split", so, X["dtype"], (X["scale"], X["zp"])) for _ in range(nsp)]
        ax = self.t("axis", [], "int32", data=dict(values=[axis]))
        self.op("SPLIT", [ax, x], outs, "SplitOptions", dict(NumSplits=nsp), version=2)
        self.extra_outputs = getattr(self, "extra_outputs", []) + outs[1:]
        return outs[0]

    def transpose(self, x):
        d, st = self.draw, self.st
        X = self.info(x)
        r = len(X["shape"])
        perms = {4: [[0, 2, 1, 3], [0, 2, 1, 3], [0, 1, 3, 2], [0, 3, 1, 2], [0, 2, 3, 1]], 3: [[1, 0, 2], [0, 2, 1], [2, 1, 0]], 2: [[1, 0]]}.get(r)
        if not perms:
            return self.unary(x, "RELU", same_q=True)
        perm = d(st.sampled_from(perms))
        so = [X["shape"][i] for i in perm]
        o = self.out("transpose", so, X["dtype"], (X["scale"], X["zp"]))
        self.op("TRANSPOSE", [x, self.const_i32("perm", perm)], [o], "TransposeOptions", {}, version=2)
        return o

    def pack(self, x):
        d, st = self.draw, self.st
        X = self.info(x)
        if len(X["shape"]) > 3:
            return self.reshape(x)
        n = d(st.integers(1, 3))
        ins = [x]
        for _ in range(n - 1):
            t = self.t("in", X["shape"], X["dtype"], X["scale"], X["zp"])
            self.inputs.append(t)
            ins.append(t)
        axis = d(st.integers(0, len(X["shape"])))
        so = X["shape"][:axis] + [n] + X["shape"][axis:]
        o = self.out("pack", so, X["dtype"], (X["scale"], X["zp"]))
        self.op("PACK", ins, [o], "PackOptions", dict(ValuesCount=n, Axis=axis), version=2)
        return o

    def unpack(self, x):
        d, st = self.draw, self.st
        X = self.info(x)
        shape = X["shape"]
        cands = [a for a in range(len(shape)) if 1 <= shape[a] <= 4 and len(shape) > 1]
        if not cands:
            return self.sslice(x)
        axis = d(st.sampled_from(cands))
        so = shape[:axis] + shape[axis + 1:]
        outs = [self.out("unpack", so, X["dtype"], (X["scale"], X["zp"])) for _ in range(shape[axis])]
        self.op("UNPACK", [x], outs, "UnpackOptions", dict(Num=shape[axis], Axis=axis), version=2)
        self.extra_outputs = getattr(self, "extra_outputs", []) + outs[1:]
        return outs[0]

    def split_v(self, x):
        d, st = self.draw, self.st
        X = self.info(x)
        shape = X["shape"]
        axis = d(st.integers(1 if len(shape) > 1 else 0, len(shape) - 1))
        if shape[axis] < 2:
            return self.sslice(x)
        a = d(st.integers(1, shape[axis] - 1))
        sizes = [a, shape[axis] - a]
        if sizes[1] >= 2 and d(st.booleans()):
            b2 = d(st.integers(1, sizes[1] - 1))
            sizes = [a, b2, sizes[1] - b2]
        outs = []
        for sz in sizes:
            so = list(shape)
            so[axis] = sz
            outs.append(self.out("splitv", so, X["dtype"], (X["scale"], X["zp"])))
        spelled = list(sizes)
        if d(st.integers(0, 2)) == 0:
            spelled[d(st.integers(0, len(sizes) - 1))] = -1  # one size may be inferred
        ax = axis - len(shape) if d(st.integers(0, 3)) == 0 else axis  # negative spelling of the axis
        self.op("SPLIT_V", [x, self.const_i32("sizes", spelled), self.t("axis", [], "int32", data=dict(values=[ax]))], outs, "SplitVOptions", dict(NumSplits=len(sizes)), version=2)
        self.extra_outputs = getattr(self, "extra_outputs", []) + outs[1:]
        return outs[0]

    def quantize(self, x, to=None):
        d, st = self.draw, self.st
        X = self.info(x)
        dt2 = to if to is not None else d(st.sampled_from([X["dtype"], X["dtype"], "int8", "uint8", "int16"]))
        if {X["dtype"], dt2} == {"uint8", "int16"}:
            dt2 = X["dtype"]
        o = self.out("quantize", X["shape"], dt2, self.quant(dt2))
        self.op("QUANTIZE", [x], [o], "QuantizeOptions", {}, version=2)
        return o

    def mean(self, x):
        d, st = self.draw, self.st
        X = self.info(x)
        r = len(X["shape"])
        if r not in (2, 3, 4):
            return self.unary(x, "RELU", same_q=True)
        # height/width reductions mostly; also depth, batch (size 1), everything, negative and scalar axis spellings, lower ranks
        menu = {4: [[1, 2], [1, 2], [1, 2], [1], [2], [3], [1, 2, 3], [0], [2, 3], [1, 3], [-1], [-2, -3], [2, 1]], 3: [[0, 1], [0], [1], [2], [1, 2], [-1]], 2: [[0], [1], [0, 1]]}[r]
        axes = d(st.sampled_from(menu))
        keep = d(st.booleans())
        norm = sorted(set(a % r for a in axes))
        so = list(X["shape"])
        for a in norm:
            so[a] = 1
        if not keep:
            so = [v for i, v in enumerate(so) if i not in norm]
        o = self.out("mean", so, X["dtype"], self.quant(X["dtype"], (X["scale"], X["zp"])))
        if len(axes) == 1 and d(st.integers(0, 3)) == 0:
            ax = self.t("axis", [], "int32", data=dict(values=[axes[0]]))  # scalar axis operand
        else:
            ax = self.const_i32("axis", axes)
        self.op("MEAN", [x, ax], [o], "ReducerOptions", dict(KeepDims=keep), version=2)
        return o

    def resize(self, x, kind, factor=None):
        d, st = self.draw, self.st
        X = self.info(x)
        if len(X["shape"]) != 4:
            return self.unary(x, "RELU", same_q=True)
        n, h, w, c = X["shape"]
        f = d(st.sampled_from([2, 2, 4, 1])) if factor is None else factor
        half = d(st.booleans())
        if X["dtype"] == "int16" and factor is None and d(st.booleans()):
            f, half = 2, True  # 16-bit half-pixel x2: edges replicated through side-by-side tiles whose offsets count bytes, not elements
        align = (not half) and d(st.booleans())
        oh, ow = (h * f, w * f) if not align else ((h - 1) * f + 1, (w - 1) * f + 1)
        o = self.out(kind, [n, oh, ow, c], X["dtype"], (X["scale"], X["zp"]))
        sz = self.const_i32("size", [oh, ow])
        if kind == "resize_bilinear":
            self.op("RESIZE_BILINEAR", [x, sz], [o], "ResizeBilinearOptions", dict(AlignCorners=align, HalfPixelCenters=half), version=3)
        else:
            self.op("RESIZE_NEAREST_NEIGHBOR", [x, sz], [o], "ResizeNearestNeighborOptions", dict(AlignCorners=align, HalfPixelCenters=half), version=3)
        return o

    def softmax(self, x):
        X = self.info(x)
        dt = X["dtype"]
        q = (1.0 / 256, -128) if dt == "int8" else (1.0 / 256, 0) if dt == "uint8" else (1.0 / 32768, 0)
        o = self.out("softmax", X["shape"], dt, q)
        self.op("SOFTMAX", [x], [o], "SoftmaxOptions", dict(Beta=self.draw(self.st.sampled_from([1.0, 0.5, 2.0]))), version=2)
        return o

    def act_lut(self, x, code):
        X = self.info(x)
        dt = X["dtype"]
        if code == "LOGISTIC":
            q = (1.0 / 256, -128) if dt == "int8" else (1.0 / 256, 0) if dt == "uint8" else (1.0 / 32768, 0)
        elif code == "TANH":
            q = (1.0 / 128, 0) if dt == "int8" else (1.0 / 128, 128) if dt == "uint8" else (1.0 / 32768, 0)
        else:
            q = self.quant(dt, (X["scale"], X["zp"]) if code == "LEAKY_RELU" else None)
        fields, table = {}, None
        if code == "LEAKY_RELU":
            table, fields = "LeakyReluOptions", dict(Alpha=self.draw(self.st.sampled_from([0.1, 0.01, 0.2, 0.5, 0.0, -0.5, 1.5])))
        o = self.out(code.lower(), X["shape"], dt, q)
        self.op(code, [x], [o], table, fields, version=2)
        return o

    def prelu(self, x):
        """PRELU with a constant per-channel alpha: all alphas equal (-> LeakyRelu / Relu), all below 1 (-> max(alpha*x, x)), or some >= 1 (-> min/mul/relu/add)"""
        d, st = self.draw, self.st
        X = self.info(x)
        dt = X["dtype"]
        C = X["shape"][-1]
        mode = d(st.sampled_from(["same", "small", "small", "large", "zero"]))
        ascale = d(st.sampled_from([0.01, 0.005, 0.02, 0.1]))
        azp = 128 if dt == "uint8" else d(st.sampled_from([0, 0, -3, 5]))
        lim = 127 if dt != "uint8" else 120
        small = max(1, min(lim - 6, int(0.99 / ascale)))
        if mode == "same":
            vals = [d(st.integers(-small, small))] * C
        elif mode == "zero":
            vals = [0] * C
        elif mode == "small":
            vals = [d(st.integers(-small, small)) for _ in range(C)]
        else:
            vals = [d(st.integers(-lim + 6, lim - 6)) for _ in range(C)]
        ashape = [1, 1, C] if len(X["shape"]) == 4 else [C]
        a = self.t("alpha", ashape, dt, ascale, azp, dict(values=[v + azp for v in vals]))
        o = self.out("prelu", X["shape"], dt, self.quant(dt, (X["scale"], X["zp"])))
        self.op("PRELU", [x, a], [o], None, None, version=1)
        return o

    def lut_unary(self, x, code):
        """EXP / LOG / SQRT / RSQRT / GELU: table-driven on the NPU for int8 (and int16 except RSQRT); any input quantisation - the functions' domains are the reference's business"""
        X = self.info(x)
        fields, table = {}, None
        if code == "GELU":
            table, fields = "GeluOptions", dict(Approximate=self.draw(self.st.booleans()))
        o = self.out(code.lower(), X["shape"], X["dtype"], self.quant(X["dtype"]))
        self.op(code, [x], [o], table, fields, version=1)
        return o

    def lstm(self, x):
        """UNIDIRECTIONAL_SEQUENCE_LSTM (8-bit activations and weights, 16-bit cell state) in the form the integer kernel defines and the converter emits: 24 operands
        (no CIFG, peephole, projection or normalisation), two variable state tensors, five intermediates.  The compiler unrolls it over time (and over the batch unless
        time-major) into fully connected operators, 16-bit element-wise operators with the hardware's tanh/sigmoid activations, and writes into the state tensors"""
        d, st = self.draw, self.st
        X = self.info(x)
        a, b_, f = X["shape"]
        time_major = d(st.booleans())
        n_batch = b_ if time_major else a
        n_cell = d(st.one_of(st.integers(1, 8), st.integers(1, 24), st.sampled_from([4, 8, 16, 17, 32])))
        seed = d(st.integers(0, 1 << 30))
        ws = d(st.sampled_from([0.01, 0.005, 0.02, 0.0078125]))
        adt = X["dtype"]  # int8, or int16 activations with 8-bit weights and 64-bit biases
        hq = self.quant(adt)
        ins = [x]
        for k in range(4):
            ins.append(self.t("lstm_w_in%d" % k, [n_cell, f], "int8", ws, 0, self.wdata("int8", seed + k)))
        for k in range(4):
            ins.append(self.t("lstm_w_re%d" % k, [n_cell, n_cell], "int8", ws, 0, self.wdata("int8", seed + 4 + k)))
        ins += [-1, -1, -1]
        for k in range(4):
            ins.append(self.t("lstm_b%d" % k, [n_cell], "int32" if adt == "int8" else "int64", float(ws) * float(X["scale"]), 0, dict(seed=seed + 8 + k, lo=-2000, hi=2000)))
        ins += [-1, -1]
        ins.append(self.t("lstm_out_state", [n_batch, n_cell], adt, hq[0], hq[1], is_variable=True))
        cell_scale = 2.0 ** -d(st.sampled_from([11, 12, 10, 13, 15]))
        ins.append(self.t("lstm_cell_state", [n_batch, n_cell], "int16", cell_scale, 0, is_variable=True))
        ins += [-1, -1, -1, -1]
        inter = [self.t("lstm_im%d" % k, [], "int16", 2.0 ** -12, 0) for k in range(4)]
        inter.append(self.t("lstm_hidden", [], adt, hq[0], hq[1]))
        o = self.out("lstm", [a, b_, n_cell], adt, hq)
        fields = dict(FusedActivationFunction=4, CellClip=d(st.sampled_from([0.0, 0.0, 10.0, 1.0, 0.5])), ProjClip=0.0, TimeMajor=time_major, AsymmetricQuantizeInputs=False)
        self.op("UNIDIRECTIONAL_SEQUENCE_LSTM", ins, [o], "UnidirectionalSequenceLSTMOptions", fields, version=3, intermediates=inter)
        return o

    def tile(self, x):
        Xn = self.info(x)
        mult = self.const_i32("mult", [1] * (len(Xn["shape"]) - 1) + [2])
        o = self.out("tile", Xn["shape"][:-1] + [Xn["shape"][-1] * 2], Xn["dtype"], (Xn["scale"], Xn["zp"]))
        self.op("TILE", [x, mult], [o], "TileOptions", {})
        return o

    # CPU side
    def custom(self, x):
        X = self.info(x)
        o = self.out("custom", X["shape"], X["dtype"], (X["scale"], X["zp"]))
        self.op("CUSTOM", [x], [o], None, None, version=1, custom_code=self.draw(self.st.sampled_from(["MyCustomOp", "TFLite_Detection_PostProcess_x", "Foo"])),
                custom_options=self.draw(self.st.binary(min_size=0, max_size=12)).hex())
        return o

    def dequant_quant(self, x, inner=None, rich=0):
        d, st = self.draw, self.st
        X = self.info(x)
        f = self.t("deq", X["shape"], "float32")
        self.op("DEQUANTIZE", [x], [f], "DequantizeOptions", {}, version=2)
        cur = f
        for code in (inner or []):
            g = self.t(code.lower(), X["shape"], "float32")
            self.op(code, [cur], [g])
            cur = g
        for _ in range(rich):  # CPU-resident float operators with populated option tables
            code, table, gen = d(st.sampled_from(FLOAT_OPS))
            g = self.t(code.lower(), X["shape"], "float32")
            self.op(code, [cur], [g], table, gen(d, st) if gen else None, version=d(st.sampled_from([1, 1, 2])))
            cur = g
            if d(st.integers(0, 4)) == 0:  # float binary op with a float constant operand
                c = self.t("fconst", [X["shape"][-1]], "float32", data=dict(seed=d(st.integers(0, 1 << 20)), lo=-2.0, hi=2.0))
                g = self.t("fadd", X["shape"], "float32")
                self.op(d(st.sampled_from(["ADD", "MUL", "SUB"])), [cur, c], [g], d(st.sampled_from(["AddOptions"])) if False else None, None)
                self.ops[-1]["opts"] = dict(table={"ADD": "AddOptions", "MUL": "MulOptions", "SUB": "SubOptions"}[self.ops[-1]["code"]], fields=dict(FusedActivationFunction=d(st.sampled_from([0, 1, 3]))))
                cur = g
        o = self.out("requant", X["shape"], X["dtype"], self.quant(X["dtype"]))
        self.op("QUANTIZE", [cur], [o], "QuantizeOptions", {}, version=1)
        return o


FLOAT_OPS = [
    # (code, options table, fields generator) - shape preserving float operators Vela leaves on the CPU
    ("L2_NORMALIZATION", "L2NormOptions", lambda d, st: dict(FusedActivationFunction=d(st.sampled_from([0, 1, 3])))),
    ("LOCAL_RESPONSE_NORMALIZATION", "LocalResponseNormalizationOptions", lambda d, st: dict(Radius=d(st.integers(1, 5)), Bias=d(st.sampled_from([0.5, 1.0, 2.0])), Alpha=d(st.sampled_from([0.25, 1e-4])), Beta=d(st.sampled_from([0.75, 0.5])))),
    ("SOFTMAX", "SoftmaxOptions", lambda d, st: dict(Beta=d(st.sampled_from([0.5, 2.0, 1.5])))),
    ("LOG_SOFTMAX", "LogSoftmaxOptions", lambda d, st: {}),
    ("LEAKY_RELU", "LeakyReluOptions", lambda d, st: dict(Alpha=d(st.sampled_from([0.125, 0.3, 0.01])))),
    ("ELU", None, None), ("FLOOR", None, None), ("CEIL", None, None), ("ROUND", None, None), ("SIN", None, None), ("COS", "CosOptions", lambda d, st: {}),
    ("NEG", "NegOptions", lambda d, st: {}), ("SQUARE", "SquareOptions", lambda d, st: {}), ("HARD_SWISH", "HardSwishOptions", lambda d, st: {}),
    ("GELU", "GeluOptions", lambda d, st: dict(Approximate=d(st.booleans()))),
    ("RELU", None, None), ("RELU6", None, None), ("TANH", None, None), ("LOGISTIC", None, None), ("EXP", "ExpOptions", lambda d, st: {}),
]


def network(profile="exact", max_ops=6, dtypes=("int8", "int8", "int8", "uint8", "int16"), big=False):
    from hypothesis import strategies as st

    short_planes = profile == "cascade_short"  # the cascade family on planes of a few rows only (kernels taller than the plane, stripes of one or two rows)
    if short_planes:
        profile = "cascade"

    @st.composite
    def net(draw):
        nb = NB(draw, st, profile)
        dt = draw(st.sampled_from(list(dtypes)))
        dim = st.one_of(st.integers(1, 8), st.integers(1, 24), st.sampled_from([1, 2, 7, 8, 13, 16, 17]))
        if profile == "cascade" or (big and draw(st.integers(0, 2)) == 0):
            h, w = draw(st.sampled_from([32, 48, 64, 96, 128])), draw(st.sampled_from([16, 24, 32, 64]))
            if profile == "cascade" and (short_planes or draw(st.integers(0, 5)) == 0):
                h = draw(st.sampled_from([4, 6, 8, 10]))  # short, wide planes: cascades of a few rows
            c = draw(st.sampled_from([1, 3, 4, 8, 16]))
        else:
            h, w, c = draw(dim), draw(dim), draw(st.one_of(st.integers(1, 8), st.integers(1, 40), st.sampled_from([3, 8, 16, 17, 32])))
        q = nb.quant(dt)
        in_shape = [1, h, w, c]
        if profile == "tall":
            # one very long dimension (rank 2-4): reductions, soft-max rows and fully connected layers over thousands of elements, limits of the documented ranges
            big_n = draw(st.sampled_from([257, 1024, 4095, 4096, 4097, 5000, 8192, 16384, 32768, 65535]))
            small = draw(st.integers(1, 8))
            in_shape = draw(st.sampled_from([[big_n, small], [small, big_n], [1, big_n, small], [1, small, big_n], [big_n, 1, small], [1, big_n, 1, small], [1, 1, big_n, small],
                                             [1, small, 1, big_n], [1, 2, big_n // 2, small]]))
            if int(math.prod(in_shape)) > 300000:
                in_shape = [d_ if d_ != small else 1 for d_ in in_shape]
        if profile == "heavy":
            in_shape = [1, draw(st.sampled_from([2, 4, 6, 8])), draw(st.sampled_from([2, 4, 8])), draw(st.sampled_from([16, 32, 48, 64, 96]))]
        if profile == "head":
            # classifier heads: a 1x1 feature map (what is left after global pooling) under 1x1 convolutions (rewritten to fully connected operators) and FC layers
            in_shape = [1, 1, 1, draw(st.one_of(st.integers(1, 40), st.sampled_from([16, 17, 32, 64, 128])))]
        if profile == "rnn":
            # recurrent networks: UNIDIRECTIONAL_SEQUENCE_LSTM over [batch, time, feature] (or time-major) sequences - unrolled by the compiler into fully connected
            # operators, 16-bit element-wise arithmetic with the hardware's tanh/sigmoid activations, reads and writes of the variable state tensors at batch offsets -
            # optionally stacked, behind a producer on the NPU and in front of ordinary consumers
            rdt = draw(st.sampled_from(["int8", "int8", "int8", "int16"]))  # (16-bit activations: 8-bit weights, 64-bit biases)
            qx = nb.quant(rdt)
            x = nb.t("input", [draw(st.integers(1, 3)), draw(st.integers(1, 5)), draw(st.one_of(st.integers(1, 8), st.integers(1, 24), st.sampled_from([16, 17, 32])))], rdt, qx[0], qx[1])
            nb.inputs.append(x)
            cur = x
            if draw(st.integers(0, 2)) == 0:
                cur = nb.unary(cur, draw(st.sampled_from(["RELU", "RELU6"])), same_q=True)
            cur = nb.lstm(cur)
            outs = []
            tail = draw(st.sampled_from(["none", "none", "stack", "relu", "image", "tap"]))
            if tail == "stack":
                cur = nb.lstm(cur)
            elif tail == "relu":
                cur = nb.unary(cur, "RELU", same_q=True)
            elif tail in ("image", "tap"):
                if tail == "tap":
                    outs.append(cur)
                Xc = nb.info(cur)
                cur = nb.reshape(cur, [1] + Xc["shape"])
                cur = nb.conv(cur) if draw(st.booleans()) else nb.pool(cur, "maxpool")
            return dict(tensors=nb.tensors, ops=nb.ops, inputs=nb.inputs, outputs=[cur] + outs)
        x = nb.t("input", in_shape, dt, q[0], q[1])
        nb.inputs.append(x)
        cur = x
        history = [x]
        n_ops = draw(st.integers(1, max_ops))
        menu = list(EXACT_OPS)
        if profile == "cpumix":  # NPU-supported operators interleaved with CPU-resident ones carrying populated option tables
            # (table-driven activations directly behind CPU-resident producers: an activation must not be folded into an operator that stays on the CPU)
            menu = ["conv", "dw", "add", "maxpool", "relu", "reshape", "concat", "rich_cpu", "rich_cpu", "rich_cpu", "custom", "unsupported_conv", "unsupported_conv", "unsupported_pool", "unsupported_tconv",
                    "gather", "tile", "fc", "mul_const", "tanh", "logistic", "lrelu"]
            n_ops = draw(st.integers(2, max_ops))
        if profile == "cascade":  # chains of spatial operators on tall planes: what the scheduler cascades and stripes
            menu = ["conv", "conv", "conv", "dw", "dw", "maxpool", "add_const", "relu", "add", "avgpool_valid", "padconv", "resize2", "padpool", "tconv1"]
            if in_shape[1] <= 10:
                menu = ["conv", "tconv1", "tconv1", "maxpool", "conv", "dw", "add_const"]  # few rows: kernels can be taller than the plane
            n_ops = draw(st.integers(2, max_ops))
        if profile == "slices":  # exact-class operators fed by SLICE/STRIDED_SLICE/SPLIT/CONCATENATION/PAD/RESHAPE: read and write offsets on every kind of consumer
            menu = ["sslice", "sslice", "split", "concat", "pad", "reshape", "conv", "conv", "dw", "maxpool", "avgpool_valid", "relu", "relu6", "add", "mul", "fc", "padconv", "padpool", "quantize", "maximum",
                    "transpose", "transpose", "pack", "unpack", "split_v", "split_v"]
            n_ops = draw(st.integers(2, max_ops))
        if profile == "fanout":
            # several branches off shared tensors; memory-only operators (RESHAPE) whose input has other consumers, is a network input or is produced by a CPU operator cannot
            # be bypassed and become copies (Memcpy); every branch end is a model output
            pool, ends = [x], []
            if draw(st.booleans()):
                # the shared root is itself produced on the NPU (its consumers - direct ones and copies that cannot be bypassed - then meet inside one Ethos-U operator)
                root = nb.conv(x) if draw(st.booleans()) else nb.unary(x, "RELU", same_q=True)
                pool = [root, root, x]
            for b in range(draw(st.integers(2, 4))):
                t = draw(st.sampled_from(pool))
                plan = draw(st.sampled_from(["reshape", "reshape", "direct", "cpu_reshape", "double_reshape", "op_reshape"]))
                X = nb.info(t)
                if plan == "cpu_reshape":
                    if len(X["shape"]) == 4 and X["shape"][0] == 1 and draw(st.booleans()):
                        t = nb.conv(t, "conv", force_stride=(4, 4))  # stays on the CPU
                    else:
                        t = nb.tile(t)
                    pool.append(t)
                if plan == "op_reshape":
                    t = nb.unary(t, "RELU", same_q=True) if draw(st.booleans()) else nb.binary(t, "ADD", None, const=True)
                    pool.append(t)
                if plan != "direct":
                    t = nb.reshape(t)
                    pool.append(t)
                    if plan == "double_reshape":
                        t = nb.reshape(t)
                X = nb.info(t)
                r4 = len(X["shape"]) == 4 and X["shape"][0] == 1
                kind = draw(st.sampled_from(["conv", "relu", "add_const", "maxpool", "mul_const", "none"] if r4 else ["relu", "add_const", "mul_const", "fc", "none"]))
                if kind == "conv":
                    t = nb.conv(t)
                elif kind == "maxpool":
                    t = nb.pool(t, "maxpool")
                elif kind == "fc":
                    t = nb.fc(t)
                elif kind == "relu":
                    t = nb.unary(t, "RELU", same_q=True)
                elif kind in ("add_const", "mul_const"):
                    t = nb.binary(t, kind.split("_")[0].upper(), None, const=True)
                pool.append(t)
                if t not in ends and t not in nb.inputs:
                    ends.append(t)
            if not ends:
                ends.append(nb.unary(x, "RELU", same_q=True))
            return dict(tensors=nb.tensors, ops=nb.ops, inputs=nb.inputs, outputs=ends)
        if profile in ("lutmix", "lutmix8"):  # (lutmix8: the large table is always the 8-bit SOFTMAX's, which the value oracle of C01 can execute)
            # tables of different sizes sharing the SHRAM table area inside one NPU subgraph: a run of 8-bit table activations (256-byte tables; TANH and LOGISTIC have fixed output
            # quantisations, so alternating them repeats tables), then one operator with a large table (int8 SOFTMAX: 1 KB; int16 EXP/LOG/SQRT/GELU between two QUANTIZE
            # operators: 2 KB), then 8-bit activations again that re-use tables loaded before the large one
            small = ["tanh", "logistic"]
            def run8(t, n, first):
                for j in range(n):
                    k = small[(first + j) % 2]
                    if draw(st.integers(0, 7)) == 0:
                        k = draw(st.sampled_from(["hswish", "lrelu"]))
                    t = nb.act_lut(t, {"logistic": "LOGISTIC", "tanh": "TANH", "hswish": "HARD_SWISH", "lrelu": "LEAKY_RELU"}[k])
                return t
            if dt == "int16":
                dt8 = draw(st.sampled_from(["int8", "int8", "uint8"]))
                cur = nb.quantize(cur, to=dt8 if dt8 == "int8" else "int8")
            dt8 = nb.info(cur)["dtype"]
            first = draw(st.integers(0, 1))
            cur = run8(cur, draw(st.integers(2, 4)), first)
            if draw(st.integers(0, 2)) != 0:
                # fill the remaining table slots with distinct tables (LEAKY_RELU that keeps its input's quantisation, one alpha each), so that a large table has to
                # be placed over tables that are still resident
                Xc = nb.info(cur)
                for alpha in draw(st.permutations([0.1, 0.01, 0.2, 0.5, 0.3, 0.05, 0.7]))[:draw(st.integers(4, 6))]:
                    o = nb.out("lrelu_fill", Xc["shape"], Xc["dtype"], (Xc["scale"], Xc["zp"]))
                    nb.op("LEAKY_RELU", [cur], [o], "LeakyReluOptions", dict(Alpha=alpha), version=2)
                    cur = o
            for rep in range(draw(st.integers(1, 2))):
                bigk = draw(st.sampled_from(["softmax", "lut16", "lut16"])) if dt8 == "int8" and profile == "lutmix" else "softmax"
                if bigk == "softmax":
                    cur = nb.softmax(cur)
                else:
                    cur = nb.quantize(cur, to="int16")
                    cur = nb.lut_unary(cur, draw(st.sampled_from(["EXP", "LOG", "SQRT", "GELU"])))
                    cur = nb.quantize(cur, to="int8")
                cur = run8(cur, draw(st.integers(2, 4)), draw(st.integers(0, 1)))
            return dict(tensors=nb.tensors, ops=nb.ops, inputs=nb.inputs, outputs=[cur])
        approx_tail = None
        if profile == "approx":  # exact-class body, one approximate-class operator in tail position (only memory-only operators may follow)
            menu = list(EXACT_OPS)
            n_ops = draw(st.integers(1, max_ops))
            approx_tail = draw(st.sampled_from(["avgpool_same", "logistic", "tanh", "hswish", "lrelu", "mean", "resize_nearest", "avgpool_same", "tanh", "tconv", "tconv", "resize_bilinear",
                                                    "exp", "log", "sqrt", "rsqrt", "gelu", "prelu", "prelu", "abs", "sqdiff", "softmax", "softmax"]))
            if dt == "int16":  # the 16-bit approximate-class operators the value oracle can execute
                approx_tail = draw(st.sampled_from(["exp", "log", "sqrt", "gelu", "resize_bilinear", "resize_bilinear", "resize_bilinear", "resize_nearest", "lrelu", "abs"]))
            if os.environ.get("VERIF_FORCE_TAIL"):  # exploration aid (never set by a registered command): concentrate a run on one tail operator
                approx_tail = os.environ["VERIF_FORCE_TAIL"]
        if profile == "exact16":  # exact-class operators whose 16-bit reference is pinned down (no ADD/SUB: their int16 reference depends on the pot_scale option)
            menu = ["conv", "conv", "conv", "dw", "fc", "maxpool", "avgpool_valid", "mul", "relu", "relu6", "reshape", "concat", "pad", "quantize", "sslice", "split",
                    "maximum", "minimum", "mul_const", "padconv", "add", "sub", "add_const", "lrelu", "lrelu", "abs"]
        reshape_plan = None
        if profile == "reshapes":  # every kind of operator directly before and/or after a RESHAPE (the rewrites must keep the operator's own shapes)
            menu = list(EXACT_OPS) + APPROX_TAIL_OPS + ["transpose", "transpose", "pack", "unpack", "split_v", "argmax_tail"]
            reshape_plan = draw(st.sampled_from(["after", "after", "before", "both"]))
            n_ops = 3 if reshape_plan == "both" else 2
        if profile == "mixed":  # exact-class operators interleaved with CPU-resident operators that have a reference kernel (stride-4 convolution, TILE), with heavy
            # re-use of earlier tensors: several Ethos-U operators exchanging tensors with the CPU, compared by value
            menu = ["conv", "dw_same", "add", "add", "mul", "sub", "maxpool", "relu", "concat", "unsupported_conv", "unsupported_conv", "tile", "add_const", "reshape"]
            n_ops = draw(st.integers(3, max(max_ops, 3)))
        if profile == "residual":  # shape-preserving NPU and CPU operators over a pool of same-shaped tensors that are re-used again and again (several
            # Ethos-U operators exchanging tensors with CPU operators, tensors with consumers on both sides and late re-use)
            menu = ["add", "add", "mul", "sub", "custom", "custom", "rich_cpu", "relu", "add_const", "maximum", "dw_same"]
            n_ops = draw(st.integers(3, max(max_ops, 3)))
        if profile == "convs":  # one or two convolution-type operators: kernel sizes, strides, per-axis dilations (also >2), paddings, depth multipliers
            menu = ["conv", "conv", "conv", "dw", "padconv", "fc", "twinconv"]
            n_ops = draw(st.integers(1, 2))
        if profile == "luts":  # many table-driven activations in one NPU subgraph: LUT slot allocation, eviction and re-use (tables repeat because quantisations repeat)
            menu = ["logistic", "tanh", "hswish", "lrelu", "logistic", "tanh", "hswish", "lrelu", "add_const", "relu", "conv", "softmax", "softmax", "softmax", "exp", "gelu", "sqrt", "log", "rsqrt"]
            n_ops = draw(st.integers(4, max(max_ops, 4)))
        if profile == "heavy":
            menu = ["conv", "conv", "conv", "conv", "relu", "add_const", "maxpool"]
            n_ops = draw(st.integers(2, 4))
        if profile == "head":
            menu = ["conv", "conv", "conv", "fc", "relu", "add_const"]
            n_ops = draw(st.integers(1, 3))
        if profile == "tall":
            menu = ["mean", "mean", "mean", "softmax", "fc", "relu", "reshape", "add_const", "maxpool", "quantize", "logistic"]
            n_ops = draw(st.integers(1, 2))
        if profile == "elementwise":  # binary operators with every broadcast form in either operand position, constants and scalars, chained
            menu = ["add", "sub", "sub", "mul", "maximum", "minimum", "add_const", "mul_const", "sub_const", "relu", "quantize", "reshape"]
            n_ops = draw(st.integers(1, max_ops))
        if profile == "wide":
            menu += APPROX_TAIL_OPS + CPU_OPS + UNREFERENCED_NPU_OPS
        for i in range(n_ops):
            X = nb.info(cur)
            r4 = len(X["shape"]) == 4 and X["shape"][0] == 1
            last = i == n_ops - 1
            kinds = menu + (APPROX_TAIL_OPS + UNREFERENCED_NPU_OPS if (profile == "npu" and last) else [])
            if profile in ("npu", "wide") and not last:
                kinds = kinds + ["custom"] if profile == "wide" else kinds
            kind = draw(st.sampled_from(kinds))
            if approx_tail is not None and last:
                kind = approx_tail
            if reshape_plan is not None:
                is_reshape = (reshape_plan == "after" and i == 1) or (reshape_plan == "before" and i == 0) or (reshape_plan == "both" and i in (0, 2))
                if is_reshape:
                    kind = "reshape"
                elif kind == "reshape":
                    kind = "conv"
            if not r4 and kind in ("conv", "twinconv", "dw", "dw_same", "unsupported_conv", "maxpool", "avgpool_valid", "avgpool_same", "padconv", "padpool", "tconv", "tconv1", "resize_nearest", "resize_bilinear") or (kind == "mean" and len(X["shape"]) not in (2, 3, 4)):
                kind = draw(st.sampled_from(["fc", "add_const", "reshape", "relu", "mul_const"]))
            if len(X["shape"]) == 0 and kind not in ("relu", "relu6", "quantize"):
                kind = "relu"  # a scalar (everything reduced away): only element-wise operators apply
            if X["dtype"] == "int16" and kind in ("avgpool_same", "hswish", "tconv", "mean", "softmax", "logistic", "tanh"):
                kind = "relu"
            if int(math.prod(X["shape"])) > 200000:
                kind = draw(st.sampled_from(["maxpool", "relu"])) if r4 else "relu"
            if kind == "conv":
                cur = nb.conv(cur)
            elif kind == "twinconv":
                cur = nb.twinconv(cur)
            elif kind == "dw":
                cur = nb.conv(cur, "dw")
            elif kind == "dw_same":
                cur = nb.conv(cur, "dw", force_pad="SAME", force_stride=(1, 1))
            elif kind in ("padconv", "padpool"):
                p = nb.pad(cur, hw_only=True)
                cons = draw(st.sampled_from(["conv", "dw", "maxpool"])) if kind == "padconv" else "maxpool"
                # (a PAD pads with the zero point: in front of a max pool those elements take part in the maximum - they are not the hardware's 'ignored' padding)
                if cons == "maxpool":
                    pv = nb.info(nb.ops[-1]["inputs"][1])["data"]["values"]  # window at least twice the padding: the padding could pass for the window's own
                    cur = nb.pool(p, "maxpool", pad="VALID", min_k=(2 * max(pv[2], pv[3], 0), 2 * max(pv[4], pv[5], 0)))
                else:
                    cur = nb.conv(p, cons, force_pad="VALID")
            elif kind == "tconv":
                cur = nb.tconv(cur)
            elif kind == "fc":
                cur = nb.fc(cur)
            elif kind == "maxpool":
                cur = nb.pool(cur, "maxpool")
            elif kind == "avgpool_valid":
                cur = nb.pool(cur, "avgpool", "VALID")
            elif kind == "avgpool_same":
                cur = nb.pool(cur, "avgpool", "SAME")
            elif kind in ("add", "sub", "mul", "maximum", "minimum"):
                other = None
                same = [t for t in history[:-1] if nb.info(t)["shape"] == X["shape"] and nb.info(t)["dtype"] == X["dtype"]]
                if kind in ("maximum", "minimum"):  # the reference kernels demand identical quantisation
                    same = [t for t in same if (nb.info(t)["scale"], nb.info(t)["zp"]) == (X["scale"], X["zp"])]
                if same and (draw(st.booleans()) or (profile in ("residual", "mixed") and draw(st.integers(0, 3)) != 0)):
                    other = draw(st.sampled_from(same))  # residual connection
                cur = nb.binary(cur, kind.upper(), other)
            elif kind in ("add_const", "mul_const", "sub_const"):
                cur = nb.binary(cur, kind.split("_")[0].upper(), None, const=True)
            elif kind in ("relu", "relu6"):
                cur = nb.unary(cur, kind.upper(), same_q=True)
            elif kind == "abs":
                cur = nb.unary(cur, "ABS", same_q=draw(st.booleans()), table="AbsOptions", fields={})
            elif kind == "reshape":
                cur = nb.reshape(cur)
            elif kind == "concat":
                same = [t for t in history[:-1] if len(nb.info(t)["shape"]) == len(X["shape"]) and nb.info(t)["dtype"] == X["dtype"]]
                cur = nb.concat(cur, draw(st.sampled_from(same)) if same and draw(st.booleans()) else None)
            elif kind == "pad":
                cur = nb.pad(cur)
            elif kind == "quantize":
                cur = nb.quantize(cur)
            elif kind == "sslice":
                cur = nb.sslice(cur)
            elif kind == "split":
                cur = nb.split(cur)
            elif kind == "transpose":
                cur = nb.transpose(cur)
            elif kind == "pack":
                cur = nb.pack(cur)
            elif kind == "unpack":
                cur = nb.unpack(cur)
            elif kind == "split_v":
                cur = nb.split_v(cur)
            elif kind == "mean":
                cur = nb.mean(cur)
            elif kind in ("resize_nearest", "resize_bilinear"):
                cur = nb.resize(cur, kind)
            elif kind == "tconv1":  # stride-1 transpose convolution (an ordinary convolution with full padding) inside a chain of spatial operators
                if r4 and X["dtype"] != "int16" and int(math.prod(X["shape"])) <= 60000:
                    cur = nb.tconv_rect(cur, "VALID", draw(st.integers(1, 8)), unit_stride=True)
                else:
                    cur = nb.unary(cur, "RELU", same_q=True)
            elif kind == "resize2":  # x2 up-scaling inside a chain of spatial operators (fused into its consumer or cascaded with it)
                if r4 and int(math.prod(X["shape"])) <= 60000 and X["dtype"] != "int16":
                    cur = nb.resize(cur, draw(st.sampled_from(["resize_nearest", "resize_nearest", "resize_bilinear"])), factor=2)
                else:
                    cur = nb.unary(cur, "RELU", same_q=True)
            elif kind == "softmax":
                cur = nb.softmax(cur)
            elif kind in ("logistic", "tanh", "hswish", "lrelu"):
                cur = nb.act_lut(cur, {"logistic": "LOGISTIC", "tanh": "TANH", "hswish": "HARD_SWISH", "lrelu": "LEAKY_RELU"}[kind])
            elif kind == "sqdiff":
                other = [t for t in history[:-1] if nb.info(t)["shape"] == X["shape"] and nb.info(t)["dtype"] == X["dtype"]]
                cur = nb.binary(cur, "SQUARED_DIFFERENCE", draw(st.sampled_from(other)) if other and draw(st.booleans()) else None)
            elif kind == "shape":
                # SHAPE of the current tensor (becomes a constant) as an extra model output; the chain continues unchanged
                so = nb.t("shape_out", [len(X["shape"])], "int32")
                nb.op("SHAPE", [cur], [so], "ShapeOptions", dict(OutType=2), version=1)
                if draw(st.booleans()):
                    # the folded shape feeds a CPU-resident consumer: the constant has to be written out with the right element type
                    co = nb.t("shape_custom", [len(X["shape"])], "int32")
                    nb.op("CUSTOM", [so], [co], None, None, version=1, custom_code="ShapeConsumer", custom_options="00")
                    so = co
                nb.extra_outputs = getattr(nb, "extra_outputs", []) + [so]
            elif kind == "prelu":
                cur = nb.prelu(cur) if X["dtype"] != "int16" else nb.unary(cur, "RELU", same_q=True)
            elif kind in LUT_UNARY:
                cur = nb.lut_unary(cur, LUT_UNARY[kind])
            elif kind == "custom":
                cur = nb.custom(cur)
            elif kind == "dequant_quant":
                cur = nb.dequant_quant(cur)
            elif kind == "rich_cpu":
                cur = nb.dequant_quant(cur, None, rich=draw(st.integers(1, 3)))
            elif kind == "unsupported_conv":
                # a CONV_2D the NPU cannot take (stride 4 / batch 2 handled elsewhere): stays on the CPU with all its options
                # the optional bias operand is sometimes left out (operand index -1): the operator stays on the CPU and must keep its operand list as it is
                cur = nb.conv(cur, "conv", force_stride=(4, 4), no_bias=draw(st.booleans())) if r4 and X["shape"][1] >= 1 else nb.unary(cur, "RELU", same_q=True)
            elif kind == "unsupported_pool":
                # MAX_POOL_2D / AVERAGE_POOL_2D with stride 4: stays on the CPU, no fused activation
                if r4 and X["shape"][1] >= 1 and X["dtype"] != "int16":
                    code = draw(st.sampled_from(["MAX_POOL_2D", "AVERAGE_POOL_2D"]))
                    n_, h_, w_, c_ = X["shape"]
                    o = nb.out("cpu_pool", [n_, -(-h_ // 4), -(-w_ // 4), c_], X["dtype"], (X["scale"], X["zp"]))
                    nb.op(code, [cur], [o], "Pool2DOptions", dict(Padding=0, StrideW=4, StrideH=4, FilterWidth=draw(st.integers(1, 3)), FilterHeight=draw(st.integers(1, 3)), FusedActivationFunction=0), version=2)
                    cur = o
                else:
                    cur = nb.unary(cur, "RELU", same_q=True)
            elif kind == "unsupported_tconv":
                cur = nb.tconv(cur, force_stride=draw(st.sampled_from([3, 4]))) if r4 and X["shape"][1] * X["shape"][2] <= 64 and X["dtype"] != "int16" else nb.unary(cur, "RELU", same_q=True)
            elif kind == "float_chain":
                cur = nb.dequant_quant(cur, draw(st.sampled_from([["FLOOR"], ["SIN", "COS"], ["EXP"], ["LOGISTIC"]])))
            elif kind == "gather":
                Xn = nb.info(cur)
                idx = nb.t("idx", [2], "int32", data=dict(values=[0, 0]))
                so = [2] + Xn["shape"][1:]
                o = nb.out("gather", so, Xn["dtype"], (Xn["scale"], Xn["zp"]))
                nb.op("GATHER", [cur, idx], [o], "GatherOptions", dict(Axis=0, BatchDims=0), version=2)
                cur = o
            elif kind == "tile":
                Xn = nb.info(cur)
                mult = nb.const_i32("mult", [1] * (len(Xn["shape"]) - 1) + [2])
                o = nb.out("tile", Xn["shape"][:-1] + [Xn["shape"][-1] * 2], Xn["dtype"], (Xn["scale"], Xn["zp"]))
                nb.op("TILE", [cur, mult], [o], "TileOptions", {})
                cur = o
            elif kind == "argmax_tail":
                Xn = nb.info(cur)
                ax = nb.t("axis", [], "int32", data=dict(values=[len(Xn["shape"]) - 1]))
                odt = "int32" if draw(st.integers(0, 4)) else "int64"
                o = nb.t("argmax", Xn["shape"][:-1], odt)
                nb.op("ARG_MAX", [cur, ax], [o], "ArgMaxOptions", dict(OutputType=2 if odt == "int32" else 4), version=2)
                history.append(cur)
                outputs = [o] + getattr(nb, "extra_outputs", [])
                return dict(tensors=nb.tensors, ops=nb.ops, inputs=nb.inputs, outputs=outputs)
            history.append(cur)
        if approx_tail is not None and nb.info(cur)["dtype"] in ("int8", "uint8") and draw(st.booleans()):
            # a clamp is monotone and 1-Lipschitz: the one-step tolerance of the approximate operator carries through it
            cur = nb.unary(cur, draw(st.sampled_from(["RELU", "RELU6", "RELU_N1_TO_1"])), same_q=True)
            history.append(cur)
        outputs = [cur] + getattr(nb, "extra_outputs", [])
        if profile != "exact" and len(history) > 2 and draw(st.integers(0, 4)) == 0:
            mid = history[len(history) // 2]
            if mid not in outputs and mid not in nb.inputs:
                outputs.append(mid)  # an intermediate that is also a model output
        return dict(tensors=nb.tensors, ops=nb.ops, inputs=nb.inputs, outputs=outputs)

    return net()


ACCELS = ["ethos-u55-32", "ethos-u55-64", "ethos-u55-128", "ethos-u55-256", "ethos-u65-256", "ethos-u65-512"]


def config(small_arena=False):
    """compiler configuration: accelerator x memory mode x optimise x arena cache size x allocator x alignment x block dependency"""
    from hypothesis import strategies as st

    @st.composite
    def cfg(draw):
        accel = draw(st.sampled_from(ACCELS))
        mm = draw(st.sampled_from(["default", "default", "Sram_Only", "Shared_Sram", "Dedicated_Sram"]))
        if mm == "Dedicated_Sram" and "u55" in accel:
            mm = "Shared_Sram"
        c = dict(accel=accel, memory_mode=mm, optimise=draw(st.sampled_from(["Performance", "Performance", "Size"])),
                 allocator=draw(st.sampled_from(["HillClimb", "HillClimb", "Greedy", "LinearAlloc"])), cpu_tensor_alignment=draw(st.sampled_from([16, 16, 16, 32, 64, 128, 256])),
                 max_block_dependency=draw(st.sampled_from([3, 3, 3, 0, 1, 2])))
        if draw(st.integers(0, 2 if not small_arena else 0)) == 0:
            c["arena_cache_size"] = draw(st.sampled_from([2048, 4096, 8192, 16384, 32768, 65536, 131072]))
        return c

    return cfg()


def cli_args(cfg, net_path, out_dir, ini_path=None):
    a = [net_path, "--output-dir", out_dir, "--accelerator-config", cfg["accel"], "--optimise", cfg["optimise"], "--tensor-allocator", cfg["allocator"],
         "--cpu-tensor-alignment", str(cfg["cpu_tensor_alignment"]), "--max-block-dependency", str(cfg["max_block_dependency"])]
    if cfg.get("arena_cache_size") is not None:
        a += ["--arena-cache-size", str(cfg["arena_cache_size"])]
    if cfg["memory_mode"] != "default":
        sysc = "Ethos_U65_High_End" if "u65" in cfg["accel"] else "Ethos_U55_High_End_Embedded"
        a += ["--config", "Arm/vela.ini", "--system-config", sysc, "--memory-mode", cfg["memory_mode"]]
    for extra in cfg.get("extra", []):
        a.append(extra)
    return a

"""independent parser for the Ethos-U driver payload (C17)"""
import struct

import hw


class PayloadError(Exception):
    pass


def parse_payload(data: bytes):
    """returns dict(product, log2_macs, shram_kib, arch, nops, cmd_offset_bytes, declared_len, words(bytes))"""
    if len(data) % 4:
        raise PayloadError("payload length %d is not a multiple of 4" % len(data))
    nw = len(data) // 4
    if nw < 1 or data[0:4] != b"COP1":
        raise PayloadError("payload does not start with COP1")
    hdr = struct.unpack("<%dI" % min(nw, 64), data[: 4 * min(nw, 64)])
    i = 1
    cfg = None
    nops = 0
    while True:
        if i >= len(hdr):
            raise PayloadError("no command-stream action in the first 64 words")
        w = hdr[i]
        tag = w & 0xFF
        if tag == hw.DA_CONFIG:
            if cfg is not None:
                raise PayloadError("two config actions")
            if i + 2 >= len(hdr):
                raise PayloadError("truncated config action")
            cw, idw = hdr[i + 1], hdr[i + 2]
            if (cw >> 16) & 0xFFF:
                raise PayloadError("reserved bits set in config word")
            cfg = dict(product=cw >> 28, log2_macs=cw & 0xF, cmd_stream_version=(cw >> 4) & 0xF, shram_kib=(cw >> 8) & 0xFF,
                       arch=(idw >> 28, (idw >> 20) & 0xFF, (idw >> 16) & 0xF), id_low=idw & 0xFFFF)
            i += 3
        elif tag == hw.DA_NOP:
            if w != hw.DA_NOP:
                raise PayloadError("NOP with parameters")
            nops += 1
            i += 1
        elif tag == hw.DA_CMDSTREAM:
            if cfg is None:
                raise PayloadError("command stream before config action")
            declared = (((w >> 8) & 0xFF) << 16) | (w >> 16)
            i += 1
            break
        else:
            raise PayloadError("unexpected driver action tag %d at word %d" % (tag, i))
    cfg.update(nops=nops, cmd_offset_bytes=4 * i, declared_len=declared, remaining_words=nw - i)
    return cfg


def check_payload(data: bytes, accel: str):
    """raises PayloadError unless `data` is a well-formed payload for accelerator `accel`; returns (info, command bytes)"""
    info = parse_payload(data)
    a = hw.ACCELS[accel]
    exp = dict(product=a["product"], log2_macs=(a["macs"] * a["cores"]).bit_length() - 1, shram_kib=a["banks"] * a["cores"], arch=hw.ARCH_VERSION)
    for k, v in exp.items():
        if info[k] != v:
            raise PayloadError("config action: %s is %s, expected %s for %s" % (k, info[k], v, accel))
    if info["cmd_offset_bytes"] % 16:
        raise PayloadError("command words start at byte %d, not 16-byte aligned" % info["cmd_offset_bytes"])
    if info["declared_len"] != info["remaining_words"]:
        raise PayloadError("declared %d command words but %d follow" % (info["declared_len"], info["remaining_words"]))
    return info, data[info["cmd_offset_bytes"]:]

"""E-run: runner shared by all checks: sharding, Hypothesis driving, known findings, replay files, evidence.

A property module (lib/props/cXX.py) provides
    PROPERTY  = "C05"
    RULE      = "how cases are generated and what makes one non-trivial / distinct"
    ASSUMPTIONS = [..]
    def parts(ctx) -> list[Part]            # the independent sub-runs of this tier (each runs in its own process)
    def replay(ctx, case) -> None           # re-run the oracle on one saved case; raise Violation on failure
A Part is (name, fn, arg); fn(ctx, arg, rec) explores and reports through `rec` (a Recorder).
Oracles signal a broken property by raising Violation(key, message, case).  Anything else escaping a part is a
harness error (exit 2), never a VIOLATION line.
"""
import argparse
import collections
import hashlib
import importlib
import json
import multiprocessing as mp
import os
import sys
import time
import traceback

HERE = os.path.dirname(os.path.abspath(__file__))
VERIF = os.path.dirname(HERE)
REPO = os.environ.get("VERIF_REPO", "/repo")
EVIDENCE = os.environ.get("VERIF_EVIDENCE_DIR") or os.path.join(VERIF, "evidence")
REPLAY_DIR = os.path.join(EVIDENCE, "replay")
KNOWN_FILE = os.path.join(VERIF, "known_findings.json")
NCPU = int(os.environ.get("VERIF_JOBS", "16"))


class Violation(Exception):
    """The property does not hold for `case`.  key identifies the root-cause bucket (matched against known findings)."""

    def __init__(self, key, message, case=None, tags=()):
        super().__init__("%s: %s" % (key, message))
        self.key = key
        self.message = message
        self.case = case
        self.tags = tuple(tags)  # structural features of the case; a known finding may require one of them


class HarnessError(Exception):
    pass


def jhash(obj):
    return hashlib.sha256(json.dumps(obj, sort_keys=True, default=str).encode()).hexdigest()[:16]


def sub_seed(seed, *names):
    h = hashlib.sha256(("%d|" % seed + "|".join(str(n) for n in names)).encode()).digest()
    return int.from_bytes(h[:4], "little")


def ethosu_frame(exc):
    """innermost traceback frame that lies in the repository (file:function), for crash bucketing"""
    tb = traceback.extract_tb(exc.__traceback__)
    for fr in reversed(tb):
        if "/ethosu/" in fr.filename and "/verif/" not in fr.filename:
            return "%s:%s" % (os.path.basename(fr.filename), fr.name)
    return None


def sut(key_prefix, case, fn, *a, allowed=(), **kw):
    """call repository code on an input the property says is valid: an exception from it is a violation
    (bucketed by exception type + innermost repository frame), except the `allowed` documented error types"""
    try:
        return fn(*a, **kw)
    except allowed:
        raise
    except Violation:
        raise
    except Exception as e:  # noqa
        fr = ethosu_frame(e)
        if fr is None:
            raise
        raise Violation("%s/exception/%s@%s" % (key_prefix, type(e).__name__, fr), "%s: %s" % (type(e).__name__, str(e)[:300]), case)


class Recorder:
    """collects what one part explored; merged in the parent"""

    MAX_SAMPLES = 6

    def __init__(self, ctx, part):
        self.ctx = ctx
        self.part = part
        self.evaluations = 0
        self.nontrivial = set()
        self.classes = collections.Counter()
        self.samples = []
        self.violations = []  # (key, message, case)
        self.known_hits = collections.Counter()
        self.exhaustive = None
        self.notes = []

    def case(self, n=1):
        self.evaluations += n

    def nontriv(self, distinct_key, sample=None):
        h = distinct_key if isinstance(distinct_key, str) and len(distinct_key) <= 40 else jhash(distinct_key)
        if h not in self.nontrivial:
            self.nontrivial.add(h)
            if sample is not None and len(self.samples) < self.MAX_SAMPLES:
                self.samples.append(sample)

    def cls(self, *labels):
        for l in labels:
            self.classes[l] += 1

    # --- violation handling -------------------------------------------------
    def known(self, v):
        for k in self.ctx.known:
            if k["property"] == self.ctx.prop and v.key.startswith(k["key"]) and (not k.get("tag") or k["tag"] in getattr(v, "tags", ())):
                return k
        return None

    def check(self, fn, case, *a, **kw):
        """run oracle fn(case,...) ; a known finding is counted and masked so the search continues behind it"""
        try:
            return fn(case, *a, **kw)
        except Violation as v:
            if v.case is None:
                v.case = case
            k = self.known(v)
            if k is not None:
                self.known_hits[k["key"]] += 1
                return None
            if os.environ.get("VERIF_COLLECT"):
                # exploration aid (never set by a registered command): keep the first case of every violation key and go on searching behind it
                if v.key not in [x[0] for x in self.violations]:
                    self.violation(v)
                return None
            raise

    def violation(self, v):
        self.violations.append((v.key, v.message, v.case))

    def dump(self):
        return dict(part=self.part, evaluations=self.evaluations, nontrivial=sorted(self.nontrivial), classes=dict(self.classes),
                    samples=self.samples, violations=self.violations, known_hits=dict(self.known_hits), exhaustive=self.exhaustive,
                    notes=self.notes)


def run_hypothesis(rec, strategy, oracle, max_examples, seed, shrink=None, collect_all=False):
    """drive `oracle(case)` with Hypothesis over `strategy`; on failure record the (shrunk) case as a violation.
    oracle gets (case, rec) and raises Violation."""
    import hypothesis
    from hypothesis import HealthCheck, Phase, given, settings

    if shrink is None:
        shrink = rec.ctx.tier == "thorough"
    phases = [Phase.generate] + ([Phase.shrink] if shrink else [])
    last = {}

    @hypothesis.seed(seed)
    @settings(max_examples=max_examples, deadline=None, database=None, derandomize=False, report_multiple_bugs=False, phases=phases,
              suppress_health_check=[HealthCheck.too_slow, HealthCheck.data_too_large, HealthCheck.large_base_example],
              print_blob=False)
    @given(strategy)
    def test(case):
        rec.case()
        try:
            rec.check(oracle, case, rec)
        except Violation as v:
            last["v"] = v
            raise

    try:
        test()
    except Violation as v:
        rec.violation(last.get("v", v))
    except hypothesis.errors.FailedHealthCheck as e:
        raise HarnessError("hypothesis health check: %s" % e)
    except BaseException as e:  # hypothesis may wrap (Flaky etc.)
        if "v" in last and type(e).__name__.startswith("Flaky"):
            rec.violation(last["v"])
        else:
            raise


class Ctx:
    def __init__(self, prop, tier, seed, known):
        self.prop = prop
        self.tier = tier
        self.seed = seed
        self.known = known

    @property
    def quick(self):
        return self.tier == "quick"


Part = collections.namedtuple("Part", "name fn arg")


def corpus_files(prop):
    d = os.path.join(VERIF, "corpus", prop)
    return sorted(os.path.join(d, f) for f in os.listdir(d) if f.endswith(".json")) if os.path.isdir(d) else []


def _corpus_part(ctx, mod, rec):
    """committed regression inputs (past shrunk failures, hand-written boundary cases) are replayed first in every tier"""
    for path in corpus_files(ctx.prop):
        with open(path) as f:
            body = json.load(f)
        case = body["case"] if isinstance(body, dict) and "case" in body else body
        rec.case()
        rec.cls("corpus")
        try:
            rec.check(lambda c: mod.replay(ctx, c), case)
        except Violation as v:
            if v.case is None:
                v.case = case
            rec.violation(v)


def _run_part(a):
    modname, ctxd, idx = a
    try:
        import velaenv

        velaenv.init()  # repository imports must resolve to the tree under test before any check code runs
        mod = importlib.import_module(modname)
        ctx = Ctx(**ctxd)
        if idx == -1:
            rec = Recorder(ctx, "corpus")
            t0 = time.time()
            _corpus_part(ctx, mod, rec)
            d = rec.dump()
            d["wall_s"] = time.time() - t0
            return d
        part = mod.parts(ctx)[idx]
        rec = Recorder(ctx, part.name)
        t0 = time.time()
        part.fn(ctx, part.arg, rec)
        d = rec.dump()
        d["wall_s"] = time.time() - t0
        return d
    except BaseException as e:  # harness error, reported by the parent
        return dict(part=str(idx), error="".join(traceback.format_exception(type(e), e, e.__traceback__))[-6000:])


def _child(job, conn):
    try:
        conn.send(_run_part(job))
    finally:
        conn.close()


def run_jobs(jobs, njobs, mod, ctx):
    """each part in its own forked process: a part that dies (signal / os._exit inside repository C code) or hangs is
    reported instead of blocking the run"""
    mpctx = mp.get_context("fork")
    timeout = float(os.environ.get("VERIF_PART_TIMEOUT", "900" if ctx.quick else "14400"))
    names = {}
    try:
        plist = mod.parts(ctx)
        names = {i: p.name for i, p in enumerate(plist)}
    except Exception:
        pass
    names[-1] = "corpus"
    pending = list(jobs)
    running = []
    results = []
    while pending or running:
        while pending and len(running) < max(1, njobs):
            job = pending.pop(0)
            rd, wr = mpctx.Pipe(duplex=False)
            pr = mpctx.Process(target=_child, args=(job, wr))
            pr.start()
            wr.close()
            running.append((pr, rd, job, time.time()))
        still = []
        for pr, rd, job, t0 in running:
            name = names.get(job[2], str(job[2]))
            if rd.poll():
                try:
                    results.append(rd.recv())
                except EOFError:
                    pr.join()
                    results.append(dict(part=name, died=pr.exitcode))
                pr.join()
            elif not pr.is_alive():
                pr.join()
                if rd.poll():
                    results.append(rd.recv())
                else:
                    results.append(dict(part=name, died=pr.exitcode))
            elif time.time() - t0 > timeout:
                pr.kill()
                pr.join()
                results.append(dict(part=name, error="part exceeded the harness watchdog of %.0fs (inconclusive)" % timeout))
            else:
                still.append((pr, rd, job, t0))
        running = still
        if running:
            time.sleep(0.02)
    return results


def load_known():
    if not os.path.exists(KNOWN_FILE):
        return []
    with open(KNOWN_FILE) as f:
        data = json.load(f)
    return [k for k in data.get("findings", []) if k.get("status") == "known"]


def write_replay(prop, key, message, case, seed, tier):
    os.makedirs(REPLAY_DIR, exist_ok=True)
    body = dict(property=prop, key=key, message=message, case=case, seed=seed, tier=tier)
    path = os.path.join(REPLAY_DIR, "%s-%s.json" % (prop, jhash([key, case])))
    with open(path, "w") as f:
        json.dump(body, f, indent=1, default=str)
    return path


def main(argv=None):
    ap = argparse.ArgumentParser()
    ap.add_argument("prop")
    ap.add_argument("--tier", default=os.environ.get("VERIF_TIER", "quick"), choices=["quick", "thorough"])
    ap.add_argument("--seed", type=int, default=int(os.environ.get("VERIF_SEED", "1") or 1))
    ap.add_argument("--replay")
    ap.add_argument("--jobs", type=int, default=NCPU)
    ap.add_argument("--only", help="run only parts whose name contains this")
    args = ap.parse_args(argv)
    prop = args.prop.upper()
    modname = "props.%s" % prop.lower()
    t0 = time.time()
    known = load_known()
    ctxd = dict(prop=prop, tier=args.tier, seed=args.seed, known=known)
    ctx = Ctx(**ctxd)
    try:
        mod = importlib.import_module(modname)
    except Exception:
        traceback.print_exc()
        print("HARNESS-ERROR property=%s cannot import check" % prop)
        return 2

    if args.replay:
        with open(args.replay) as f:
            body = json.load(f)
        case = body["case"] if isinstance(body, dict) and "case" in body else body
        import velaenv

        velaenv.init()
        if isinstance(case, dict) and case.get("kind") == "part":
            return main([prop, "--tier", case.get("tier", "quick"), "--seed", str(case.get("seed", 1)), "--only", case["part"]])
        try:
            mod.replay(ctx, case)
        except Violation as v:
            print("replay: %s" % v)
            print("VIOLATION property=%s replay=%s" % (prop, os.path.abspath(args.replay)))
            return 1
        print("replay: property held on %s" % args.replay)
        return 0

    try:
        parts = mod.parts(ctx)
    except Exception:
        traceback.print_exc()
        print("HARNESS-ERROR property=%s parts() failed" % prop)
        return 2
    idxs = [i for i, p in enumerate(parts) if not args.only or args.only in p.name]
    jobs = [(modname, ctxd, i) for i in idxs]
    if corpus_files(prop) and (not args.only or args.only == "corpus"):
        jobs.insert(0, (modname, ctxd, -1))
    results = run_jobs(jobs, args.jobs, mod, ctx)
    results.sort(key=lambda d: str(d.get("part")))
    died = [r for r in results if "died" in r]
    for r in died:
        # the worker was killed while running repository code on generated input (e.g. SIGSEGV/abort in the C extension)
        r.update(evaluations=0, nontrivial=[], classes={}, samples=[], known_hits={}, exhaustive=None, notes=[], wall_s=0.0,
                 violations=[("%s/process-died/%s" % (prop, r["part"]), "worker process of part %s died with exit code %s while running repository code "
                               "(negative = signal); re-run with --only %s" % (r["part"], r["died"], r["part"]),
                               dict(kind="part", part=r["part"], seed=args.seed, tier=args.tier))])
    errors = [r for r in results if "error" in r]
    for r in errors:
        sys.stderr.write("---- harness error in part %s ----\n%s\n" % (r["part"], r["error"]))

    evaluations = sum(r.get("evaluations", 0) for r in results)
    nontriv = set()
    classes = collections.Counter()
    samples, violations, notes = [], [], []
    known_hits = collections.Counter()
    exhaustive_parts = []
    per_part = {}
    for r in results:
        if "error" in r:
            continue
        nontriv.update(r["nontrivial"])
        classes.update(r["classes"])
        known_hits.update(r["known_hits"])
        violations.extend(r["violations"])
        notes.extend(r["notes"])
        if r["exhaustive"]:
            exhaustive_parts.append(r["part"])
        per_part[r["part"]] = dict(evaluations=r["evaluations"], nontrivial=len(r["nontrivial"]), wall_s=round(r["wall_s"], 1))
    for r in results:  # spread samples over parts
        for s in r.get("samples", [])[:2]:
            if len(samples) < 10:
                samples.append(s)

    # violations -> replay files (one per distinct key)
    seen = set()
    vlines = []
    for key, message, case in violations:
        if key in seen:
            continue
        seen.add(key)
        path = write_replay(prop, key, message, case, args.seed, args.tier)
        vlines.append((key, message, path))

    for k in known:
        if k["property"] == prop:
            print("KNOWN-FINDING: property=%s %s (masked cases this run: %d)" % (prop, k["what"], known_hits.get(k["key"], 0)))

    os.makedirs(EVIDENCE, exist_ok=True)
    ev = dict(
        property_id=prop, tier=args.tier, seed=args.seed, level="exploration",
        coverage=dict(
            evaluations=evaluations, distinct_nontrivial=len(nontriv), rule=getattr(mod, "RULE", ""),
            samples=samples, classes=dict(sorted(classes.items(), key=lambda kv: -kv[1])[:80]),
            parts=per_part, exhaustive_parts=exhaustive_parts, exhaustive=bool(exhaustive_parts) and len(exhaustive_parts) == len(per_part),
            known_finding_cases_masked=dict(known_hits), notes=notes[:20],
            violation_keys=[v[0] for v in vlines],
        ),
        assumptions=getattr(mod, "ASSUMPTIONS", []),
        wall_s=round(time.time() - t0, 2),
        violations=len(vlines),
    )
    if not errors or vlines:
        # a run restricted with --only is an exploration aid: it must not replace the evidence of the full check
        with open(os.path.join(EVIDENCE, "%s%s.json" % (prop, ".partial" if args.only else "")), "w") as f:
            json.dump(ev, f, indent=1, default=str)
    print("%s tier=%s seed=%d evaluations=%d distinct_nontrivial=%d violations=%d wall=%.1fs" % (
        prop, args.tier, args.seed, evaluations, len(nontriv), len(vlines), time.time() - t0))
    for key, message, path in vlines:
        print("violation key=%s: %s" % (key, message[:400]))
        print("VIOLATION property=%s replay=%s" % (prop, path))
    if vlines:
        return 1
    if errors:
        print("HARNESS-ERROR property=%s (%d part(s) failed, see stderr)" % (prop, len(errors)))
        return 2
    return 0

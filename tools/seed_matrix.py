#!/usr/bin/env python3
"""runs every kept seeded change (seeded/<name>/patch.diff) against the check of the property it breaks (scratch copy of /repo,
see tools/mutate.py) and records the outcome in seeded/<name>/meta.json -> detected_by.   usage: tools/seed_matrix.py [name-substring] [--tier t]"""
import json, os, re, subprocess, sys
HERE = os.path.dirname(os.path.dirname(os.path.abspath(__file__)))
args = sys.argv[1:]
tier = "quick"
if "--tier" in args:
    i = args.index("--tier"); tier = args[i + 1]; del args[i:i + 2]
start = None
if "--from" in args:
    i = args.index("--from"); start = args[i + 1]; del args[i:i + 2]
sel = args[0] if args else ""
head = subprocess.check_output(["git", "-C", "/repo", "log", "--format=%h", "-1"]).decode().strip()
for name in sorted(os.listdir(os.path.join(HERE, "seeded"))):
    d = os.path.join(HERE, "seeded", name)
    if sel not in name or not os.path.exists(os.path.join(d, "patch.diff")):
        continue
    if start and name < start:
        continue
    meta = json.load(open(os.path.join(d, "meta.json")))
    prop = meta["property"]
    if meta.get("superseded"):
        print("%-45s superseded (see meta.json)" % name, flush=True)
        continue
    r = subprocess.run([sys.executable, os.path.join(HERE, "tools", "mutate.py"), prop, "--tier", tier, "--patch", os.path.join(d, "patch.diff")], capture_output=True, text=True)
    out = r.stdout + r.stderr
    keys = sorted(set(re.findall(r"violation key=([^:]+):", out)))
    m = re.search(r"MUTANT exit=(\d+)", out)
    code = int(m.group(1)) if m else None
    status = "detected" if code == 1 and keys else ("missed" if code == 0 else "error")
    if "FAILED -- saving rejects" in out or "patch" in out and "returned non-zero exit status" in out:
        status = "patch-does-not-apply"
    meta["detected_by"] = dict(check="./check %s --tier %s" % (prop, tier), status=status, exit=code, violation_keys=keys, repo_head=head)
    json.dump(meta, open(os.path.join(d, "meta.json"), "w"), indent=1)
    print("%-45s %-9s exit=%s %s" % (name, status, code, keys[:3]), flush=True)
    if status == "error":
        print(out[-1500:])

#!/usr/bin/env python3
"""sensitivity probe: copy /repo to a scratch dir, apply textual mutations, run a check against the copy, clean up.
usage: tools/mutate.py PROP [--tier quick] [--patch FILE | FILE@@OLD@@NEW ...]      (exit code = that of the check)"""
import os, shutil, subprocess, sys, tempfile

def main():
    a = sys.argv[1:]
    prop = a.pop(0)
    tier = "quick"
    extra = []
    patch = None
    muts = []
    while a:
        x = a.pop(0)
        if x == "--tier":
            tier = a.pop(0)
        elif x == "--patch":
            patch = os.path.abspath(a.pop(0))
        elif x == "--only":
            extra += ["--only", a.pop(0)]
        else:
            muts.append(x.split("@@"))
    d = tempfile.mkdtemp(prefix="vmut-", dir="/tmp")
    try:
        repo = os.path.join(d, "repo")
        subprocess.check_call(["git", "-C", "/repo", "worktree", "list"], stdout=subprocess.DEVNULL)
        shutil.copytree("/repo", repo, ignore=shutil.ignore_patterns(".git", "__pycache__", "*.so", "build", ".eggs"))
        if patch:
            pr = subprocess.run(["patch", "-p1", "-s", "-d", repo, "-i", patch], capture_output=True, text=True)
            if pr.returncode != 0:
                print(pr.stdout + pr.stderr)
                print("patch returned non-zero exit status")
                return 3
        for f, old, new in muts:
            p = os.path.join(repo, f)
            s = open(p).read()
            if s.count(old) != 1:
                print("mutation target occurs %d times in %s" % (s.count(old), f)); return 3
            open(p, "w").write(s.replace(old, new))
        env = dict(os.environ, VERIF_REPO=repo, VERIF_EVIDENCE_DIR=os.path.join(d, "evidence"))
        here = os.path.dirname(os.path.dirname(os.path.abspath(__file__)))
        if os.environ.get("VERIF_SNAPSHOT"):
            # run the check from a snapshot of the committed harness (so that edits in progress in the working tree cannot disturb a long matrix run)
            snap = os.path.join(d, "verif")
            os.makedirs(snap)
            subprocess.check_call("git -C %s archive HEAD | tar -x -C %s" % (here, snap), shell=True)
            for sub in (".deps", "build"):
                if os.path.exists(os.path.join(here, sub)):
                    os.symlink(os.path.join(here, sub), os.path.join(snap, sub))
            here = snap
        r = subprocess.run([os.path.join(here, "check"), prop, "--tier", tier] + extra, env=env, capture_output=True, text=True)
        out = [l for l in (r.stdout + r.stderr).splitlines() if not l.startswith("Warning: Memory limit")]
        print("\n".join(out[-25:]))
        print("MUTANT exit=%d" % r.returncode)
        return r.returncode
    finally:
        shutil.rmtree(d, ignore_errors=True)

sys.exit(main())

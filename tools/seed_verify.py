#!/usr/bin/env python3
"""confirm a seeded change independently: in a scratch copy of /repo's HEAD, the demo passes without the patch and fails
with it, and the pinned test suite still passes with it.  Then store it as /verif/seeded/<name>/.
usage: tools/seed_verify.py NAME PROPERTY SRC_DIR [--needs "text"]"""
import json, os, shutil, subprocess, sys, tempfile, glob

name, prop, src = sys.argv[1:4]
needs = sys.argv[5] if len(sys.argv) > 5 and sys.argv[4] == "--needs" else ""
here = os.path.dirname(os.path.dirname(os.path.abspath(__file__)))
patch = os.path.join(src, "patch.diff")
demos = glob.glob(os.path.join(src, "demo_*.py"))
assert os.path.exists(patch) and demos, "patch.diff / demo missing"
demo = demos[0]
d = tempfile.mkdtemp(prefix="vseed-", dir="/tmp")
log = []
try:
    repo = os.path.join(d, "repo")
    subprocess.check_call(["git", "clone", "-q", "/repo", repo])
    so = glob.glob("/repo/ethosu/mlw_codec*.so")[0]

    def build_so():
        import sysconfig
        inc = "/root/.pyenv/versions/3.12.1/include/python3.12"
        npinc = subprocess.check_output(["/venv/bin/python", "-c", "import numpy;print(numpy.get_include())"], text=True).strip()
        subprocess.check_call(["cc", "-O3", "-DNDEBUG", "-fPIC", "-shared", "-fwrapv", "-DNPY_NO_DEPRECATED_API=NPY_1_9_API_VERSION", "-I", inc, "-I", npinc,
                               "-Iethosu/mlw_codec", "ethosu/mlw_codec/mlw_encode.c", "ethosu/mlw_codec/mlw_decode.c", "ethosu/mlw_codec/mlw_codecmodule.c",
                               "-o", "ethosu/" + os.path.basename(so), "-lm"], cwd=repo)

    build_so()
    shutil.copy(demo, repo)
    helper = os.path.join(src, "tfl_builder.py")  # model-building helper the demo may import
    if os.path.exists(helper):
        shutil.copy(helper, repo)
    env = dict(os.environ, PYTHONPATH=repo, PYTHONDONTWRITEBYTECODE="1")

    def run_demo():
        r = subprocess.run(["/venv/bin/python", os.path.basename(demo)], cwd=repo, env=env, capture_output=True, text=True, timeout=1800)
        return r.returncode, (r.stdout + r.stderr)[-1500:]

    rc0, out0 = run_demo()
    log.append("demo on unmodified HEAD: exit %d" % rc0)
    subprocess.check_call(["git", "apply", patch], cwd=repo)
    if any(l.startswith("+++") and l.strip().endswith((".c", ".h")) for l in open(patch)):
        build_so()
        log.append("rebuilt codec extension")
    rc1, out1 = run_demo()
    log.append("demo with patch: exit %d" % rc1)
    r = subprocess.run([os.path.join(here, "tools", "baseline.py"), repo], capture_output=True, text=True)
    log.append("baseline with patch: %s (exit %d)" % (r.stdout.strip().splitlines()[0] if r.stdout.strip() else "?", r.returncode))
    ok = rc0 == 0 and rc1 != 0 and r.returncode == 0
    print("\n".join(log))
    if not ok:
        print("NOT CONFIRMED\n--- demo before:\n%s\n--- demo after:\n%s" % (out0, out1))
        sys.exit(1)
    dst = os.path.join(here, "seeded", name)
    os.makedirs(dst, exist_ok=True)
    shutil.copy(patch, os.path.join(dst, "patch.diff"))
    shutil.copy(demo, dst)
    if os.path.exists(helper):
        shutil.copy(helper, dst)
    notes = os.path.join(src, "NOTES.md")
    if os.path.exists(notes):
        shutil.copy(notes, dst)
    meta = dict(property=prop, name=name, needs_to_manifest=needs, confirmed=log, repo_head=subprocess.check_output(["git", "-C", "/repo", "rev-parse", "HEAD"], text=True).strip(),
                detected_by=None)
    mp = os.path.join(dst, "meta.json")
    if os.path.exists(mp):
        old = json.load(open(mp)); meta["detected_by"] = old.get("detected_by"); meta["needs_to_manifest"] = needs or old.get("needs_to_manifest", "")
    json.dump(meta, open(mp, "w"), indent=1)
    print("CONFIRMED -> %s" % dst)
finally:
    shutil.rmtree(d, ignore_errors=True)

#!/usr/bin/env python3
"""rewrites the seeded-change table of DESIGN.md §8.5 (between the BEGIN/END markers) from seeded/*/meta.json"""
import glob, json, os, re
HERE = os.path.dirname(os.path.dirname(os.path.abspath(__file__)))
rows = []
for d in sorted(glob.glob(os.path.join(HERE, "seeded", "*", "meta.json"))):
    m = json.load(open(d)); db = m.get("detected_by") or {}
    status = "superseded" if m.get("superseded") else db.get("status")
    rows.append("| %s | %s | %s | %s |" % (m["name"], m.get("needs_to_manifest", "").replace("|", "/")[:150], status, ", ".join(db.get("violation_keys", [])[:2])))
table = "| seeded change | needs, to manifest | quick tier | violation keys |\n|---|---|---|---|\n" + "\n".join(rows)
p = os.path.join(HERE, "DESIGN.md")
s = open(p).read()
b, e = "<!-- BEGIN seeded table -->", "<!-- END seeded table -->"
if b in s:
    s = s[:s.index(b) + len(b)] + "\n" + table + "\n" + s[s.index(e):]
else:
    i = s.index("| seeded change | needs, to manifest |")
    j = s.index("\n\n", i)
    s = s[:i] + b + "\n" + table + "\n" + e + s[j:]
open(p, "w").write(s)
print("%d rows" % len(rows))

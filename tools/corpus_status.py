#!/usr/bin/env python3
"""replays every corpus file of a property without masking and prints the violation key (or 'ok') - used to see which recorded findings still reproduce"""
import importlib, json, os, sys
HERE = os.path.dirname(os.path.dirname(os.path.abspath(__file__)))
sys.path[:0] = [os.path.join(HERE, "lib"), os.path.join(HERE, "vendor"), os.path.join(HERE, ".deps")]
import runner, velaenv
velaenv.init()
prop = sys.argv[1]
mod = importlib.import_module("props." + prop.lower())
ctx = runner.Ctx(prop, "quick", 1, [])
for f in runner.corpus_files(prop):
    body = json.load(open(f))
    case = body["case"] if isinstance(body, dict) and "case" in body else body
    try:
        mod.replay(ctx, case)
        print("ok        ", os.path.basename(f))
    except runner.Violation as v:
        print("VIOLATION ", os.path.basename(f), v.key, list(v.tags)[:6])

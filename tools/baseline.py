#!/usr/bin/env python3
"""run the repository's pinned test suite (BASELINE.json) in a given tree and compare with the stable_pass list"""
import json, os, subprocess, sys, tempfile, xml.etree.ElementTree as ET
repo = sys.argv[1] if len(sys.argv) > 1 else "/repo"
base = json.load(open("/root/.vp/BASELINE.json"))
out = tempfile.mktemp(suffix=".xml")
env = dict(os.environ)
if repo != "/repo":
    env["PYTHONPATH"] = repo
r = subprocess.run(["/venv/bin/python", "-m", "pytest", "-ra", "-q", "-p", "no:cacheprovider", "--timeout=900", "--continue-on-collection-errors", "--junitxml=" + out], cwd=repo, env=env, capture_output=True, text=True)
passed = set()
for tc in ET.parse(out).getroot().iter("testcase"):
    if not any(ch.tag in ("failure", "error", "skipped") for ch in tc):
        passed.add("%s::%s" % (tc.get("classname"), tc.get("name")))
os.unlink(out)
missing = [t for t in base["stable_pass"] if t not in passed]
print("stable_pass=%d passed_now=%d missing=%d" % (len(base["stable_pass"]), len(passed), len(missing)))
for m in missing[:20]:
    print("  NOT PASSING:", m)
sys.exit(1 if missing else 0)

#!/usr/bin/env python3
"""writes MANIFEST.json from the table below (kept in one place so it is always schema-valid)"""
import json, os, sys
HERE = os.path.dirname(os.path.dirname(os.path.abspath(__file__)))
sys.path.insert(0, os.path.join(HERE, "tools"))
from manifest_table import CHECKS, NOT_APPLICABLE, HOOK_COMMITS

props = [json.loads(l) for l in open(os.path.join(HERE, "properties.jsonl"))]
ids = [p["id"] for p in props]
checks = []
for pid in ids:
    if pid not in CHECKS:
        continue
    c = CHECKS[pid]
    checks.append(dict(
        property_id=pid,
        quick_cmd="./check %s --tier quick" % pid,
        thorough_cmd="./check %s --tier thorough" % pid,
        evidence_file="/verif/evidence/%s.json" % pid,
        replay_cmd_template="./check %s --replay {path}" % pid,
        engine=c.get("engine", "runner"),
        level_claimed=dict(category="exploration", text=c["text"], design_ref=c.get("design_ref", "DESIGN.md §3 " + pid)),
        level_note=c["note"],
        technique=c["technique"],
    ))
na = [dict(property_id=pid, reason=NOT_APPLICABLE.get(pid, "check not built yet (work in progress); see DESIGN.md")) for pid in ids if pid not in CHECKS]
m = dict(
    version=1,
    setup_cmd="./setup.sh",
    hooks=dict(guard="ETHOSU_VELA_VERIF", enable="no source hooks are needed: checks import /repo's working tree directly (PYTHONPATH) and rebuild the codec extension from its C sources; ETHOSU_VELA_VERIF=1 is exported by ./check but no repository code reads it",
               baseline_off_cmd="cd /repo && /venv/bin/python -m pytest -ra -q -p no:cacheprovider --timeout=900 --continue-on-collection-errors",
               source_commits=HOOK_COMMITS, add_only=True),
    engines=[
        dict(name="runner", path="lib/runner.py", serves_properties=sorted(CHECKS), kind_free_text="Hypothesis / exhaustive-enumeration driver with sharding, known-finding masking, replay files and evidence"),
        dict(name="extbuild", path="lib/extbuild.py", serves_properties=sorted(CHECKS), kind_free_text="rebuilds the mlw_codec extension from /repo's working tree; pinned reference decoder"),
    ],
    checks=checks,
    not_applicable=na,
    notes="All checks: ./check <ID> [--tier quick|thorough] [--seed N] [--replay FILE]; seed from VERIF_SEED. Exit 0 held / 1 VIOLATION / 2 harness error.",
)
json.dump(m, open(os.path.join(HERE, "MANIFEST.json"), "w"), indent=1)
print("wrote MANIFEST.json with %d checks, %d not_applicable" % (len(checks), len(na)))

HOOK_COMMITS = []
NOT_APPLICABLE = {}
CHECKS = {
    "C05": dict(
        technique="property-based testing: exhaustive small-scope enumeration + Hypothesis-generated large live-range sets against a validity predicate (non-overlap, alignment, total, iteration bound)",
        text="Every multiset of <=3 (quick) / <=5 (thorough) live ranges over 5 time steps and a size lattice, and thousands of random sets of up to 400 ranges, are given to the three real allocators; addresses are read back through Tensor.address and checked by an independent predicate. Exploration: complete inside the stated small scope, sampled beyond.",
        note="trusts only Python and the harness' predicate; Vela's own verify_allocation is exercised but not relied on"),
}

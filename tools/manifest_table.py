HOOK_COMMITS = []
NOT_APPLICABLE = {}
CHECKS = {
    "C05": dict(
        technique="property-based testing: exhaustive small-scope enumeration + Hypothesis-generated large live-range sets against a validity predicate (non-overlap, alignment, total, iteration bound)",
        text="Every multiset of <=3 (quick) / <=5 (thorough) live ranges over 5 time steps and a size lattice, and thousands of random sets of up to 400 ranges, are given to the three real allocators; addresses are read back through Tensor.address and checked by an independent predicate. Exploration: complete inside the stated small scope, sampled beyond.",
        note="trusts only Python and the harness' predicate; Vela's own verify_allocation is exercised but not relied on"),
    "C17": dict(
        technique="property-based testing: generated word lists (boundary lengths, one per length bit, adversarial contents) x 6 accelerators against an independent payload parser; same parser over command_stream tensors of generated compiled networks",
        text="npu_create_driver_payload is called on thousands of generated word lists including every power-of-two boundary up to 2^24; an independent parser with a pinned accelerator table checks COP1, the config/id words, NOP padding, 16-byte alignment, the 24-bit length and the words; 2^24 words must be rejected.",
        note="trusted base: pinned accelerator/ID table lib/hw.py, parser lib/payload.py"),
    "C09": dict(
        technique="property-based testing: exhaustive float32 mantissa sweeps + Hypothesis float64/triple generation against exact rational arithmetic and a TFLite QuantizeMultiplier / Add-Sub-Mul Prepare reference; exhaustive accumulator sweeps for average-pool divisors",
        text="quantise_scale/reduced_quantise_scale on all 2^23 mantissas of chosen exponents, all exponents, doubles next to powers of two; quantise_pooling_scale on every reachable accumulator for windows <=256 (8-bit) and ties/ends up to 65536; add/sub/mul triples against the TFLite derivation, with the argument types production uses (np.float32).",
        note="trusted base: tflref.py re-derivation of the TFLite reference (QuantizeMultiplier, Add/Sub Prepare), Python Fractions"),
    "C19": dict(
        technique="property-based testing: exhaustive 8-bit pair / 16-bit single sweeps and Hypothesis boundary-biased 32-bit operands against a gemmlowp reference on Python ints; generated table parameters against mpmath (100-bit) and ports of the TFLite integer kernels",
        text="fp_math helpers are called with every operand type production uses (Python int, np.int8/16/32/64) and compared bit for bit with a Python-int gemmlowp reference (any exception or NumPy overflow warning is a violation); sigmoid/tanh/exp/sqrt/gelu tables against a correctly rounded mpmath value, leaky-relu and hard-swish tables against ports of the TFLite kernels, optimise_quantize constants against TFLite Requantize.",
        note="trusted base: lib/tflref.py + the gemmlowp/TFLite ports in lib/props/c19.py, mpmath"),
    "C07": dict(
        technique="property-based testing + coverage-guided fuzzing: exhaustive short sequences, Hypothesis per-coding-mode streams and OHWI volumes round-tripped through a pinned reference decoder and an independent traversal model; libFuzzer with ASan/UBSan on the C encoder with the round-trip oracle inside the target",
        text="The codec extension is rebuilt from the working tree for every run. encode()/npu_encode_weights() outputs are decoded by a pinned copy of the reference decoder and must equal the source weights in the hardware block-traversal order computed by an independent NumPy model, padded only with zeros, length % 16 == 0; out-of-range weights must raise; a libFuzzer target links the repository's mlw_encode.c with sanitizers (with and without NDEBUG).",
        note="trusted base: vendor/mlw_decode.c (pinned reference decoder), lib/wref.py traversal model, clang sanitizers"),
    "C08": dict(
        technique="property-based testing: Hypothesis-generated encode requests parsed back range by range against an independent reference (pinned decoder + traversal model + TFLite multiplier derivation); generated request histories compared with pristine-process encodings (history invariant)",
        text="encode_weight_and_scale_tensor is called directly on generated operators (conv/depthwise/FC/transpose conv, 1-2 cores, uneven depth slices); every (core, slice) range is checked for alignment, order, coverage, one 10-byte record per owned channel with the reference bias/multiplier/shift, and a weight stream that decodes to exactly those channels; request sequences sharing weight tensors must return bytes identical to a fresh encoding in a forked pristine process.",
        note="trusted base: vendor/mlw_decode.c, lib/wref.py, lib/tflref.py; requests mimic the reader's per-operator tensor clones"),
    "C18": dict(
        technique="property-based testing: Hypothesis-generated .ini files, selections and CLI overrides against a reference resolver written from OPTIONS.md (model-based differential), observed both through ArchitectureFeatures and through the CLI's --verbose-config output; metamorphic check internal-default == documented bundled sections",
        text="Thousands of generated configuration files with inheritance chains (also across files), option subsets, legal and illegal port mappings and sizes are resolved by the real code and by an independent resolver; error cases must be rejected with a Vela error. A sample runs through vela.main with config paths in bundled/absolute/relative/dot form from three working directories.",
        note="trusted base: reference resolver in lib/props/c18.py (OPTIONS.md reading), Python configparser merge semantics"),
    "C06": dict(
        technique="property-based testing: Hypothesis-generated NpuOperation lists with shared register history, round trip through an independent stateful decoder (field-by-field differential against the operation specification); same comparison on operation lists captured from generated compiled networks",
        text="Lists of 1-8 legal operations of all five kinds are built so that consecutive operations share most register values; the emitted words are decoded by lib/csdec.py with a register file that persists across operations, and every consumed field of every operation must equal the value derived from the operation given (addresses incl. bits 32-39, tiles, strides, precision, kernel, pads, weight/scale ranges per core, activation, scaling, block config), reserved bits zero, alignment rules, waits adjacent to their operation, exactly one stop.",
        note="trusted base: lib/csdec.py field table (DESIGN.md Appendix A), vendor/npu_regs.py opcode numbers, lib/tflref.py for scale registers"),
    "C15": dict(
        technique="property-based testing: Hypothesis-generated operator descriptors x 6 accelerators through the public block-config query; every offered configuration checked by an independent SHRAM validity predicate on the registers decoded from the stream the generator emits for it (acceptance + round trip)",
        text="For thousands of generated operators the query's configurations are checked for micro-block multiples and the maximum block, then given back to npu_generate_register_command_stream (must be accepted); IB_END/IB_START2/AB_START/ACC_FORMAT are decoded from the emitted words and must describe ordered, non-overlapping partitions inside the bank count that can double-buffer the IFM block (own receptive-field formula) and the accumulators at the pinned bank granules.",
        note="trusted base: SHRAM description pinned in lib/hw.py (bank counts, granule table, LUT placement, Conv1D rule), lib/csdec.py"),
    "C04": dict(
        technique="property-based testing: Hypothesis-generated operation histories over a shared buffer pool and producer/consumer chains; invariant over the emitted stream under an explicit execution model (two queues, bounded outstanding counts, waits, block-job dependency) with exact byte footprints; same invariant over streams of generated compiled networks",
        text="The emitted words are decoded and replayed on a model of the kernel and DMA queues: for every operation issued, every operation that may still be in flight (given the KERNEL_WAIT/DMA_WAIT actually present and the outstanding limits) must be free of RAW/WAR/WAW byte overlap across queues, and the programmed BLOCKDEP must not let a consumer job start while a producer block job it reads from is unfinished.",
        note="trusted base: execution model H7-H9 (DESIGN.md §4), lib/footprint.py, lib/hazard.py, lib/csdec.py; job traversal order as documented in the repository, not a silicon trace"),
    "C10": dict(
        technique="property-based testing: exhaustive small-scope enumeration + Hypothesis geometries of striped operators against independent receptive-field arithmetic (reference model); stripe sequences decoded from streams of generated compiled networks",
        text="For every (input height, kernel, stride, dilation, padding kind, stripe height) in the small scope and random larger ones, the IFM start row, the rows the hardware derives and the pads produced by Vela's own padding/skirt, Box.transform_with_strides_and_skirt and create_padding are compared per stripe with the receptive field of the stripe's output rows clipped to the input.",
        note="trusted base: hardware row-derivation rule H2; receptive-field arithmetic in lib/props/c10.py"),
}

#!/bin/sh
# runs the quick tier of every check at the given seed(s); prints one line per check (and the violation keys)
cd "$(dirname "$0")/.." || exit 2
for seed in "$@"; do
  for i in 01 02 03 04 05 06 07 08 09 10 11 12 13 14 15 16 17 18 19; do
    ./check C$i --tier quick --seed "$seed" 2>&1 | grep "tier=\|violation key\|HARNESS\|KNOWN-FINDING" | cut -c1-400
  done
done

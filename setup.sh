#!/bin/sh
# offline bootstrap: optional wheels into .deps, C pieces into build/.  ./check repeats whatever is missing.
HERE="$(cd "$(dirname "$0")" && pwd)"
cd "$HERE" || exit 2
PY="${VERIF_PYTHON:-/venv/bin/python}"
"$PY" -c "import hypothesis" 2>/dev/null || "$PY" -m pip install --no-index --find-links /opt/veriftools/wheels hypothesis >/dev/null 2>&1
mkdir -p .deps
for pkg in mpmath atheris; do
  PYTHONPATH="$HERE/.deps" "$PY" -c "import $pkg" 2>/dev/null || "$PY" -m pip install --no-index --find-links /opt/veriftools/wheels --target "$HERE/.deps" "$pkg" >/dev/null 2>&1 || echo "setup: optional package $pkg not installed"
done
PYTHONPATH="$HERE/lib:$HERE/vendor" "$PY" "$HERE/lib/extbuild.py" || exit 2

/* libFuzzer target for C07: structured decode of the fuzz bytes into (configuration, distribution, weights), then
 * encode with the repository's mlw_encode.c (ASan+UBSan) and decode with the pinned reference decoder; the semantic
 * oracle (round trip in hardware order, zero padding only, length % 16) lives inside the target. */
#include <stdint.h>
#include <stdlib.h>
#include <string.h>
#include <stdio.h>
#include "mlw_encode.h"

int ref_mlw_decode(uint8_t *inbuf, int inbuf_size, int16_t **outbuf, int verbose); /* vendor/mlw_decode.c, renamed */

static const uint8_t *D; static size_t N, P;
static unsigned u8(void) { return P < N ? D[P++] : 0; }
static unsigned u16(void) { unsigned a = u8(); return a | (u8() << 8); }

static void fail(const char *msg) { fprintf(stderr, "ORACLE-FAILURE: %s\n", msg); abort(); }

int LLVMFuzzerTestOneInput(const uint8_t *data, size_t size)
{
    D = data; N = size; P = 0;
    unsigned mode = u8();
    unsigned dist = u8() % 6;
    int n;
    int16_t *w;
    int reorder = mode & 1;
    int od = 1, kh = 1, kw = 1, id = 1;
    if (reorder) {
        od = 1 + u8() % 40; kh = 1 + u8() % 10; kw = 1 + u8() % 10; id = 1 + u8() % 40;
        n = od * kh * kw * id;
    } else {
        n = 1 + u16() % 5000;
        if ((mode & 6) == 6) n = 30000 + (u16() % 9000); /* cross the 32768 slice limit */
    }
    w = (int16_t *)malloc(sizeof(int16_t) * (n ? n : 1));
    unsigned a = u8(), b = u8();
    for (int i = 0; i < n; i++) {
        int v;
        unsigned r = u8();
        switch (dist) {
        case 0: v = (int)(r % 5) - 2; break;                              /* tiny alphabet */
        case 1: v = (r & 3) ? 0 : (int)(u8() % 64) - 32; break;           /* zero runs */
        case 2: v = (int)((r | (u8() << 8)) % 511) - 255; break;          /* uniform wide */
        case 3: v = (int)(a % 200) - 100 + (int)(r % (1 + b % 40)); break; /* shifted cluster */
        case 4: v = (r & 1) ? 255 : -255; break;                          /* extremes */
        default: v = ((i / (1 + a)) & 1) ? (int)(r % 33) - 16 : (int)(r % 256) - 128; break; /* piecewise sources */
        }
        if (v > 255) v = 255;
        if (v < -255) v = -255;
        w[i] = (int16_t)v;
    }
    uint8_t *out = NULL;
    int16_t *dec = NULL;
    int len;
    int16_t *expect = w; int nexp = n;
    if (reorder) {
        static const int ubd[3][2] = {{8, 8}, {8, 4}, {8, 8}};
        int cfg = u8() % 3;
        int ofm_block_depth = 8 * (1 + u8() % 8);
        int depthwise = (mode >> 3) & 1;
        int partkernel = depthwise ? 0 : (mode >> 4) & 1;
        int bits = (mode & 32) ? 16 : 8;
        int dh = (mode & 64) ? 4 : 8, dw = (mode & 128) ? 4 : 8;
        int strides[4];
        if (depthwise) { id = 1; n = od * kh * kw; }
        strides[3] = 1; strides[2] = id; strides[1] = id * kw; strides[0] = id * kw * kh;
        int64_t padded = 0;
        len = mlw_reorder_encode(ubd[cfg][0], ubd[cfg][1], od, kh, kw, id, strides, w, ofm_block_depth, depthwise, partkernel, bits, dh, dw, &out, &padded, 0);
        if (len < 0) fail("mlw_reorder_encode returned an error for in-range weights");
        if (len % 16) fail("stream length not a multiple of 16");
        int m = ref_mlw_decode(out, len, &dec, 0);
        if (m < padded) fail("decoded stream shorter than the padded traversal");
        /* sum check: traversal only permutes and pads with zeros */
        long s1 = 0, s2 = 0; long q1 = 0, q2 = 0;
        for (int i = 0; i < n; i++) { s1 += w[i]; q1 += (long)w[i] * w[i]; }
        for (int i = 0; i < m; i++) { s2 += dec[i]; q2 += (long)dec[i] * dec[i]; }
        if (s1 != s2 || q1 != q2) fail("decoded multiset differs from the source weights");
    } else {
        len = mlw_encode(w, n, &out, 0);
        if (len < 0) fail("mlw_encode returned an error for in-range weights");
        if (len % 16) fail("stream length not a multiple of 16");
        int m = ref_mlw_decode(out, len, &dec, 0);
        if (m < nexp) fail("decoded stream shorter than the input");
        if (memcmp(dec, expect, sizeof(int16_t) * nexp)) fail("decoded weights differ from the source");
        for (int i = nexp; i < m; i++) if (dec[i]) fail("non-zero padding");
    }
    free(dec);
    mlw_free_outbuf(out);
    free(w);
    return 0;
}
